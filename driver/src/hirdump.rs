use crate::json::{self, opt, s, J};
use crate::mirdump::ty_str;
use crate::{def_id_str, loc, path_str};
use rustc_hir as hir;
use rustc_hir::def::{DefKind, Res};
use rustc_middle::ty::{self, TyCtxt, TypeckResults};

struct D<'tcx> {
    tcx: TyCtxt<'tcx>,
    tr: &'tcx TypeckResults<'tcx>,
    env: ty::TypingEnv<'tcx>,
    unsafe_blocks: std::cell::Cell<usize>,
}

impl<'tcx> D<'tcx> {
    fn line(&self, sp: rustc_span::Span) -> J {
        let sm = self.tcx.sess.source_map();
        json::i(sm.lookup_char_pos(sp.source_callsite().lo()).line)
    }

    fn res(&self, r: Res) -> J {
        match r {
            Res::Def(kind, did) => {
                let mut v = vec![
                    ("res", s("def")),
                    ("dk", s(format!("{:?}", kind))),
                    ("path", s(path_str(self.tcx, did))),
                    ("id", s(def_id_str(self.tcx, did))),
                ];
                if let DefKind::Ctor(..) = kind {
                    // path of the variant/struct itself
                    let parent = self.tcx.parent(did);
                    v.push(("ctor_of", s(path_str(self.tcx, parent))));
                }
                J::O(v)
            }
            Res::Local(hid) => J::O(vec![
                ("res", s("local")),
                ("name", s(self.tcx.hir_name(hid).to_string())),
                ("lid", s(format!("{}", hid.local_id.as_u32()))),
            ]),
            Res::SelfCtor(did) | Res::SelfTyAlias { alias_to: did, .. } => {
                J::O(vec![("res", s("self")), ("path", s(path_str(self.tcx, did)))])
            }
            other => J::O(vec![("res", s("other")), ("dbg", s(format!("{:?}", other)))]),
        }
    }

    fn qpath(&self, q: &hir::QPath<'tcx>, id: hir::HirId) -> J {
        self.res(self.tr.qpath_res(q, id))
    }

    fn lit(&self, l: &hir::Lit) -> J {
        use rustc_ast::LitKind;
        match &l.node {
            LitKind::Str(sym, _) => J::O(vec![("lit", s("str")), ("v", s(sym.as_str()))]),
            LitKind::Char(c) => J::O(vec![("lit", s("char")), ("v", s(c.to_string())), ("cp", json::i(*c as u32))]),
            LitKind::Int(n, _) => J::O(vec![("lit", s("int")), ("v", J::I(n.get() as i128))]),
            LitKind::Float(sym, _) => J::O(vec![("lit", s("float")), ("v", s(sym.as_str()))]),
            LitKind::Bool(b) => J::O(vec![("lit", s("bool")), ("v", J::B(*b))]),
            LitKind::Byte(b) => J::O(vec![("lit", s("byte")), ("v", json::i(*b))]),
            other => J::O(vec![("lit", s("other")), ("dbg", s(format!("{:?}", other)))]),
        }
    }

    fn pat_expr(&self, e: &hir::PatExpr<'tcx>) -> J {
        match &e.kind {
            hir::PatExprKind::Lit { lit, negated } => {
                let mut j = self.lit(lit);
                if let J::O(v) = &mut j {
                    if *negated {
                        v.push(("neg", J::B(true)));
                    }
                }
                j
            }
            hir::PatExprKind::Path(q) => self.qpath(q, e.hir_id),
        }
    }

    fn pat(&self, p: &hir::Pat<'tcx>) -> J {
        let mut v: Vec<(&'static str, J)> = vec![];
        match &p.kind {
            hir::PatKind::Wild => v.push(("pk", s("wild"))),
            hir::PatKind::Missing => v.push(("pk", s("missing"))),
            hir::PatKind::Never => v.push(("pk", s("never"))),
            hir::PatKind::Binding(mode, hid, ident, sub) => {
                v.push(("pk", s("bind")));
                v.push(("name", s(ident.name.to_string())));
                v.push(("lid", s(format!("{}", hid.local_id.as_u32()))));
                v.push(("mode", s(format!("{:?}", mode))));
                if let Some(sp) = sub {
                    v.push(("sub", self.pat(sp)));
                }
            }
            hir::PatKind::Struct(q, fields, rest) => {
                v.push(("pk", s("struct")));
                v.push(("path", self.qpath(q, p.hir_id)));
                let fs: Vec<J> = fields
                    .iter()
                    .map(|f| J::O(vec![("name", s(f.ident.name.to_string())), ("pat", self.pat(f.pat))]))
                    .collect();
                v.push(("fields", J::A(fs)));
                v.push(("rest", J::B(rest.is_some())));
            }
            hir::PatKind::TupleStruct(q, subs, ddpos) => {
                v.push(("pk", s("tuplestruct")));
                v.push(("path", self.qpath(q, p.hir_id)));
                v.push(("subs", J::A(subs.iter().map(|x| self.pat(x)).collect())));
                if let Some(pos) = ddpos.as_opt_usize() {
                    v.push(("dotdot", json::i(pos)));
                }
            }
            hir::PatKind::Or(ps) => {
                v.push(("pk", s("or")));
                v.push(("alts", J::A(ps.iter().map(|x| self.pat(x)).collect())));
            }
            hir::PatKind::Tuple(ps, ddpos) => {
                v.push(("pk", s("tuple")));
                v.push(("subs", J::A(ps.iter().map(|x| self.pat(x)).collect())));
                if let Some(pos) = ddpos.as_opt_usize() {
                    v.push(("dotdot", json::i(pos)));
                }
            }
            hir::PatKind::Box(x) | hir::PatKind::Deref(x) => {
                v.push(("pk", s("deref")));
                v.push(("sub", self.pat(x)));
            }
            hir::PatKind::Ref(x, ..) => {
                v.push(("pk", s("ref")));
                v.push(("sub", self.pat(x)));
            }
            hir::PatKind::Expr(e) => {
                v.push(("pk", s("expr")));
                v.push(("e", self.pat_expr(e)));
            }
            hir::PatKind::Guard(x, g) => {
                v.push(("pk", s("guard")));
                v.push(("sub", self.pat(x)));
                v.push(("guard", self.expr(g)));
            }
            hir::PatKind::Range(lo, hi, end) => {
                v.push(("pk", s("range")));
                v.push(("lo", opt(lo.map(|e| self.pat_expr(e)))));
                v.push(("hi", opt(hi.map(|e| self.pat_expr(e)))));
                v.push(("end", s(format!("{:?}", end))));
            }
            hir::PatKind::Slice(a, m, b) => {
                v.push(("pk", s("slice")));
                v.push(("before", J::A(a.iter().map(|x| self.pat(x)).collect())));
                v.push(("mid", opt(m.map(|x| self.pat(x)))));
                v.push(("after", J::A(b.iter().map(|x| self.pat(x)).collect())));
            }
            hir::PatKind::Err(_) => v.push(("pk", s("err"))),
        }
        v.push(("line", self.line(p.span)));
        J::O(v)
    }

    fn block(&self, b: &hir::Block<'tcx>) -> J {
        if matches!(b.rules, hir::BlockCheckMode::UnsafeBlock(hir::UnsafeSource::UserProvided)) {
            self.unsafe_blocks.set(self.unsafe_blocks.get() + 1);
        }
        let mut stmts = vec![];
        for st in b.stmts.iter() {
            match &st.kind {
                hir::StmtKind::Let(l) => {
                    stmts.push(J::O(vec![
                        ("sk", s("let")),
                        ("pat", self.pat(l.pat)),
                        ("init", opt(l.init.map(|e| self.expr(e)))),
                        ("els", opt(l.els.map(|b| self.block(b)))),
                        ("line", self.line(st.span)),
                    ]));
                }
                hir::StmtKind::Item(_) => stmts.push(J::O(vec![("sk", s("item"))])),
                hir::StmtKind::Expr(e) => stmts.push(J::O(vec![("sk", s("expr")), ("e", self.expr(e))])),
                hir::StmtKind::Semi(e) => stmts.push(J::O(vec![("sk", s("semi")), ("e", self.expr(e))])),
            }
        }
        J::O(vec![
            ("k", s("Block")),
            ("unsafe", if matches!(b.rules, hir::BlockCheckMode::UnsafeBlock(hir::UnsafeSource::UserProvided)) { J::B(true) } else { J::Null }),
            ("stmts", J::A(stmts)),
            ("expr", opt(b.expr.map(|e| self.expr(e)))),
            ("line", self.line(b.span)),
        ])
    }

    fn expr(&self, e: &hir::Expr<'tcx>) -> J {
        let mut v: Vec<(&'static str, J)> = vec![];
        let ety = self.tr.expr_ty_opt(e).map(|t| s(ty_str(t)));
        match &e.kind {
            hir::ExprKind::Array(xs) => {
                v.push(("k", s("Array")));
                v.push(("elems", J::A(xs.iter().map(|x| self.expr(x)).collect())));
            }
            hir::ExprKind::Call(f, args) => {
                v.push(("k", s("Call")));
                v.push(("f", self.expr(f)));
                v.push(("args", J::A(args.iter().map(|x| self.expr(x)).collect())));
            }
            hir::ExprKind::MethodCall(seg, recv, args, _) => {
                v.push(("k", s("MethodCall")));
                v.push(("name", s(seg.ident.name.to_string())));
                if let Some(d) = self.tr.type_dependent_def_id(e.hir_id) {
                    v.push(("path", s(path_str(self.tcx, d))));
                    v.push(("id", s(def_id_str(self.tcx, d))));
                    let ga = self.tr.node_args(e.hir_id);
                    if let Ok(Some(inst)) = ty::Instance::try_resolve(self.tcx, self.env, d, ga) {
                        if inst.def_id() != d {
                            v.push(("rpath", s(path_str(self.tcx, inst.def_id()))));
                            v.push(("rid", s(def_id_str(self.tcx, inst.def_id()))));
                        }
                    }
                }
                v.push(("recv", self.expr(recv)));
                v.push(("recv_ty", opt(self.tr.expr_ty_opt(recv).map(|t| s(ty_str(t))))));
                v.push(("recv_ty_adj", opt(self.tr.expr_ty_adjusted_opt(recv).map(|t| s(ty_str(t))))));
                v.push(("args", J::A(args.iter().map(|x| self.expr(x)).collect())));
            }
            hir::ExprKind::Use(x, _) => {
                v.push(("k", s("Use")));
                v.push(("e", self.expr(x)));
            }
            hir::ExprKind::Tup(xs) => {
                v.push(("k", s("Tup")));
                v.push(("elems", J::A(xs.iter().map(|x| self.expr(x)).collect())));
            }
            hir::ExprKind::Binary(op, a, b) => {
                v.push(("k", s("Binary")));
                v.push(("op", s(format!("{:?}", op.node))));
                if let Some(d) = self.tr.type_dependent_def_id(e.hir_id) {
                    v.push(("path", s(path_str(self.tcx, d))));
                }
                v.push(("a", self.expr(a)));
                v.push(("b", self.expr(b)));
            }
            hir::ExprKind::Unary(op, a) => {
                v.push(("k", s("Unary")));
                v.push(("op", s(format!("{:?}", op))));
                if let Some(d) = self.tr.type_dependent_def_id(e.hir_id) {
                    v.push(("path", s(path_str(self.tcx, d))));
                }
                v.push(("a", self.expr(a)));
            }
            hir::ExprKind::Lit(l) => {
                v.push(("k", s("Lit")));
                v.push(("lit", self.lit(l)));
            }
            hir::ExprKind::Cast(x, _) => {
                v.push(("k", s("Cast")));
                v.push(("e", self.expr(x)));
            }
            hir::ExprKind::Type(x, _) => {
                v.push(("k", s("Type")));
                v.push(("e", self.expr(x)));
            }
            hir::ExprKind::DropTemps(x) => {
                return self.expr(x);
            }
            hir::ExprKind::Let(l) => {
                v.push(("k", s("Let")));
                v.push(("pat", self.pat(l.pat)));
                v.push(("init", self.expr(l.init)));
            }
            hir::ExprKind::If(c, t, el) => {
                v.push(("k", s("If")));
                v.push(("cond", self.expr(c)));
                v.push(("then", self.expr(t)));
                v.push(("else", opt(el.map(|x| self.expr(x)))));
            }
            hir::ExprKind::Loop(b, label, src, _) => {
                v.push(("k", s("Loop")));
                v.push(("src", s(format!("{:?}", src))));
                if let Some(l) = label {
                    v.push(("label", s(l.ident.name.to_string())));
                }
                v.push(("hid", s(format!("{}", e.hir_id.local_id.as_u32()))));
                v.push(("body", self.block(b)));
            }
            hir::ExprKind::Match(scrut, arms, src) => {
                v.push(("k", s("Match")));
                v.push(("src", s(format!("{:?}", src))));
                v.push(("scrut", self.expr(scrut)));
                let mut av = vec![];
                for a in arms.iter() {
                    av.push(J::O(vec![
                        ("pat", self.pat(a.pat)),
                        ("guard", opt(a.guard.map(|g| self.expr(g)))),
                        ("body", self.expr(a.body)),
                        ("line", self.line(a.span)),
                    ]));
                }
                v.push(("arms", J::A(av)));
            }
            hir::ExprKind::Closure(c) => {
                v.push(("k", s("Closure")));
                v.push(("path", s(path_str(self.tcx, c.def_id.to_def_id()))));
                v.push(("id", s(def_id_str(self.tcx, c.def_id.to_def_id()))));
                v.push(("ckind", s(format!("{:?}", c.kind))));
                let body = self.tcx.hir_body(c.body);
                v.push(("params", J::A(body.params.iter().map(|p| self.pat(p.pat)).collect())));
                v.push(("body", self.expr(body.value)));
            }
            hir::ExprKind::Block(b, label) => {
                let mut j = self.block(b);
                if let J::O(bv) = &mut j {
                    if let Some(l) = label {
                        bv.push(("label", s(l.ident.name.to_string())));
                    }
                    bv.push(("hid", s(format!("{}", e.hir_id.local_id.as_u32()))));
                    bv.push(("ty", opt(ety)));
                }
                return j;
            }
            hir::ExprKind::Assign(l, r, _) => {
                v.push(("k", s("Assign")));
                v.push(("lhs", self.expr(l)));
                v.push(("rhs", self.expr(r)));
            }
            hir::ExprKind::AssignOp(op, l, r) => {
                v.push(("k", s("AssignOp")));
                v.push(("op", s(format!("{:?}", op.node))));
                if let Some(d) = self.tr.type_dependent_def_id(e.hir_id) {
                    v.push(("path", s(path_str(self.tcx, d))));
                }
                v.push(("lhs", self.expr(l)));
                v.push(("rhs", self.expr(r)));
            }
            hir::ExprKind::Field(x, ident) => {
                v.push(("k", s("Field")));
                v.push(("name", s(ident.name.to_string())));
                v.push(("e", self.expr(x)));
                v.push(("of_ty", opt(self.tr.expr_ty_adjusted_opt(x).map(|t| s(ty_str(t))))));
            }
            hir::ExprKind::Index(a, b, _) => {
                v.push(("k", s("Index")));
                v.push(("a", self.expr(a)));
                v.push(("b", self.expr(b)));
            }
            hir::ExprKind::Path(q) => {
                v.push(("k", s("Path")));
                v.push(("r", self.qpath(q, e.hir_id)));
            }
            hir::ExprKind::AddrOf(_, m, x) => {
                v.push(("k", s("AddrOf")));
                v.push(("mut", J::B(m.is_mut())));
                v.push(("e", self.expr(x)));
            }
            hir::ExprKind::Break(dest, x) => {
                v.push(("k", s("Break")));
                if let Ok(t) = dest.target_id {
                    v.push(("target", s(format!("{}", t.local_id.as_u32()))));
                }
                if let Some(l) = dest.label {
                    v.push(("label", s(l.ident.name.to_string())));
                }
                v.push(("e", opt(x.map(|x| self.expr(x)))));
            }
            hir::ExprKind::Continue(dest) => {
                v.push(("k", s("Continue")));
                if let Ok(t) = dest.target_id {
                    v.push(("target", s(format!("{}", t.local_id.as_u32()))));
                }
            }
            hir::ExprKind::Ret(x) => {
                v.push(("k", s("Ret")));
                v.push(("e", opt(x.map(|x| self.expr(x)))));
            }
            hir::ExprKind::Struct(q, fields, tail) => {
                v.push(("k", s("Struct")));
                v.push(("path", self.qpath(q, e.hir_id)));
                let fs: Vec<J> = fields
                    .iter()
                    .map(|f| J::O(vec![("name", s(f.ident.name.to_string())), ("e", self.expr(f.expr))]))
                    .collect();
                v.push(("fields", J::A(fs)));
                if let hir::StructTailExpr::Base(b) = tail {
                    v.push(("base", self.expr(b)));
                }
            }
            hir::ExprKind::Repeat(x, _) => {
                v.push(("k", s("Repeat")));
                v.push(("e", self.expr(x)));
            }
            hir::ExprKind::Yield(x, src) => {
                v.push(("k", s("Yield")));
                v.push(("src", s(format!("{:?}", src))));
                v.push(("e", self.expr(x)));
            }
            hir::ExprKind::ConstBlock(_) => v.push(("k", s("ConstBlock"))),
            hir::ExprKind::Become(x) => {
                v.push(("k", s("Become")));
                v.push(("e", self.expr(x)));
            }
            hir::ExprKind::InlineAsm(_) => v.push(("k", s("InlineAsm"))),
            hir::ExprKind::OffsetOf(..) => v.push(("k", s("OffsetOf"))),
            hir::ExprKind::UnsafeBinderCast(_, x, _) => {
                v.push(("k", s("UnsafeBinderCast")));
                v.push(("e", self.expr(x)));
            }
            hir::ExprKind::Err(_) => v.push(("k", s("Err"))),
        }
        v.push(("ty", opt(ety)));
        v.push(("line", self.line(e.span)));
        if e.span.from_expansion() {
            let ed = e.span.ctxt().outer_expn_data();
            v.push(("exp", s(format!("{:?}", ed.kind))));
        }
        J::O(v)
    }
}

pub fn dump_all<'tcx>(tcx: TyCtxt<'tcx>) -> Vec<J> {
    let mut out = vec![];
    for ldid in tcx.hir_body_owners() {
        let did = ldid.to_def_id();
        let kind = tcx.def_kind(did);
        if !matches!(kind, DefKind::Fn | DefKind::AssocFn) {
            continue;
        }
        let body = tcx.hir_body_owned_by(ldid);
        let tr = tcx.typeck(ldid);
        let env = ty::TypingEnv::post_analysis(tcx, did);
        let d = D { tcx, tr, env, unsafe_blocks: std::cell::Cell::new(0) };
        let params: Vec<J> = body.params.iter().map(|p| d.pat(p.pat)).collect();
        let value = d.expr(body.value);
        let sig = tcx.fn_sig(did).instantiate_identity().skip_norm_wip().skip_binder();
        let mut v = vec![
            ("path", s(path_str(tcx, did))),
            ("id", s(def_id_str(tcx, did))),
            ("loc", loc(tcx, tcx.def_span(did))),
            ("from_expansion", J::B(tcx.def_span(did).from_expansion())),
            ("inputs", J::A(sig.inputs().iter().map(|t| s(ty_str(*t))).collect())),
            ("output", s(ty_str(sig.output()))),
            ("unsafe_fn", J::B(sig.safety().is_unsafe())),
            ("is_async", J::B(tcx.asyncness(did).is_async())),
            ("params", J::A(params)),
            ("body", value),
            ("unsafe_blocks", json::i(d.unsafe_blocks.get())),
        ];
        if kind == DefKind::AssocFn {
            if let Some(imp) = tcx.impl_of_assoc(did) {
                let st = tcx.type_of(imp).instantiate_identity().skip_norm_wip();
                v.push(("impl_self", s(ty_str(st))));
                if let Some(tr) = tcx.impl_opt_trait_ref(imp) {
                    v.push(("impl_trait", s(path_str(tcx, tr.skip_binder().def_id))));
                }
            }
        }
        out.push(J::O(v));
    }
    out
}

/// Bodies of `const` / `static` items (module level, associated, or nested in a function): a table that used to be written in
/// place (`match`, an `if` chain, repeated inserts) is often given a name; the rules read the table through the name.
pub fn dump_consts<'tcx>(tcx: TyCtxt<'tcx>) -> Vec<J> {
    let mut out = vec![];
    for ldid in tcx.hir_body_owners() {
        let did = ldid.to_def_id();
        let kind = tcx.def_kind(did);
        if !matches!(kind, DefKind::Const { .. } | DefKind::AssocConst { .. } | DefKind::Static { .. }) {
            continue;
        }
        let body = tcx.hir_body_owned_by(ldid);
        let tr = tcx.typeck(ldid);
        let env = ty::TypingEnv::post_analysis(tcx, did);
        let d = D { tcx, tr, env, unsafe_blocks: std::cell::Cell::new(0) };
        let value = d.expr(body.value);
        let t = tcx.type_of(did).instantiate_identity().skip_norm_wip();
        out.push(J::O(vec![
            ("path", s(path_str(tcx, did))),
            ("id", s(def_id_str(tcx, did))),
            ("kind", s(format!("{:?}", kind))),
            ("ty", s(ty_str(t))),
            ("loc", loc(tcx, tcx.def_span(did))),
            ("body", value),
        ]));
    }
    out
}
