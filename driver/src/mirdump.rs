use crate::json::{self, opt, s, J};
use crate::{crate_of, def_id_str, loc, path_str};
use rustc_hir::def::DefKind;
use rustc_hir::def_id::DefId;
use rustc_middle::mir::{
    AggregateKind, AssertKind, BasicBlockData, Body, Const, Operand, Place, ProjectionElem, Rvalue,
    StatementKind, TerminatorKind, VarDebugInfoContents,
};
use rustc_middle::ty::{self, GenericArgsRef, Ty, TyCtxt, TypingEnv};

pub fn ty_str(t: Ty<'_>) -> String {
    rustc_middle::ty::print::with_no_visible_paths!(rustc_middle::ty::print::with_no_trimmed_paths!(format!("{}", t)))
}

fn def_ref(tcx: TyCtxt<'_>, did: DefId) -> Vec<(&'static str, J)> {
    vec![
        ("path", s(path_str(tcx, did))),
        ("id", s(def_id_str(tcx, did))),
        ("crate", s(crate_of(tcx, did))),
        ("local", J::B(did.is_local())),
    ]
}

/// Type of `place` after each projection, used to name fields.
fn place_json<'tcx>(tcx: TyCtxt<'tcx>, body: &Body<'tcx>, p: &Place<'tcx>) -> J {
    let mut projs = vec![];
    let mut pty = rustc_middle::mir::PlaceTy::from_ty(body.local_decls[p.local].ty);
    for elem in p.projection.iter() {
        let j = match elem {
            ProjectionElem::Deref => s("*"),
            ProjectionElem::Field(f, fty) => {
                let mut name = format!("{}", f.index());
                let mut owner = String::new();
                match pty.ty.kind() {
                    ty::Adt(adt, _) => {
                        let vidx = pty.variant_index.unwrap_or(rustc_abi::FIRST_VARIANT);
                        if adt.is_enum() || adt.is_struct() || adt.is_union() {
                            if let Some(v) = adt.variants().get(vidx) {
                                if let Some(fd) = v.fields.get(f) {
                                    name = fd.name.to_string();
                                }
                                owner = path_str(tcx, adt.did());
                                if adt.is_enum() {
                                    owner = format!("{}::{}", owner, v.name);
                                }
                            }
                        }
                    }
                    _ => {}
                }
                J::O(vec![
                    ("f", s(name)),
                    ("i", json::i(f.index())),
                    ("of", if owner.is_empty() { J::Null } else { s(owner) }),
                    ("ty", s(ty_str(fty))),
                ])
            }
            ProjectionElem::Index(l) => J::O(vec![("index", json::i(l.index()))]),
            ProjectionElem::ConstantIndex { offset, from_end, .. } => {
                J::O(vec![("cindex", json::i(offset)), ("from_end", J::B(from_end))])
            }
            ProjectionElem::Subslice { from, to, from_end } => J::O(vec![
                ("subslice", json::i(from)),
                ("to", json::i(to)),
                ("from_end", J::B(from_end)),
            ]),
            ProjectionElem::Downcast(sym, vidx) => {
                let name = sym.map(|x| x.to_string()).unwrap_or_else(|| match pty.ty.kind() {
                    ty::Adt(adt, _) => adt.variant(vidx).name.to_string(),
                    _ => format!("{}", vidx.index()),
                });
                J::O(vec![("variant", s(name)), ("vi", json::i(vidx.index()))])
            }
            ProjectionElem::OpaqueCast(_) => s("opaque"),
            ProjectionElem::UnwrapUnsafeBinder(_) => s("unbinder"),
        };
        projs.push(j);
        pty = pty.projection_ty(tcx, elem);
    }
    J::O(vec![("l", json::i(p.local.index())), ("p", J::A(projs)), ("ty", s(ty_str(pty.ty)))])
}

fn const_json<'tcx>(tcx: TyCtxt<'tcx>, env: TypingEnv<'tcx>, c: &Const<'tcx>) -> J {
    let t = c.ty();
    let mut v = vec![("ty", s(ty_str(t))), ("dbg", s(format!("{:?}", c)))];
    match t.kind() {
        ty::FnDef(did, args) => {
            v.push(("fndef", callee_json(tcx, env, *did, args)));
        }
        ty::Int(_) | ty::Uint(_) | ty::Bool | ty::Char => {
            if let Some(si) = c.try_eval_scalar_int(tcx, env) {
                let size = si.size();
                let val: i128 = match t.kind() {
                    ty::Int(_) => si.to_int(size),
                    _ => si.to_uint(size) as i128,
                };
                v.push(("int", J::I(val)));
            }
        }
        ty::Float(fty) => {
            if let Some(si) = c.try_eval_scalar_int(tcx, env) {
                let bits = si.to_uint(si.size());
                let f = match fty {
                    ty::FloatTy::F64 => f64::from_bits(bits as u64),
                    ty::FloatTy::F32 => f32::from_bits(bits as u32) as f64,
                    _ => f64::NAN,
                };
                v.push(("float", s(format!("{:?}", f))));
            }
        }
        _ => {}
    }
    J::O(v)
}

fn operand_json<'tcx>(tcx: TyCtxt<'tcx>, env: TypingEnv<'tcx>, body: &Body<'tcx>, o: &Operand<'tcx>) -> J {
    match o {
        Operand::Copy(p) => J::O(vec![("copy", place_json(tcx, body, p))]),
        Operand::Move(p) => J::O(vec![("move", place_json(tcx, body, p))]),
        Operand::Constant(c) => J::O(vec![("const", const_json(tcx, env, &c.const_))]),
        #[allow(unreachable_patterns)]
        _ => J::O(vec![("other", s(format!("{:?}", o)))]),
    }
}

/// Local functions that external generic code may call through the trait bounds of the
/// callee's generic parameters (DESIGN K1: generic-argument linking).
fn generic_links<'tcx>(
    tcx: TyCtxt<'tcx>,
    env: TypingEnv<'tcx>,
    rdid: DefId,
    rargs: GenericArgsRef<'tcx>,
) -> Vec<J> {
    let mut out = vec![];
    let mut seen = std::collections::BTreeSet::new();
    let preds = tcx.predicates_of(rdid).instantiate(tcx, rargs);
    for clause in preds.predicates.iter() {
        let clause = clause.skip_norm_wip();
        let Some(tp) = clause.as_trait_clause() else { continue };
        let tp = tcx.instantiate_bound_regions_with_erased(tp);
        let selfty = tp.self_ty();
        // peel references / smart pointers: forwarding impls live in core/alloc
        let mut cands = vec![selfty];
        let mut cur = selfty;
        for _ in 0..4 {
            match cur.kind() {
                ty::Ref(_, t, _) => {
                    cur = *t;
                    cands.push(cur);
                }
                ty::Adt(d, a) if d.is_box() || is_rc_like(tcx, d.did()) => {
                    if let Some(t) = a.types().next() {
                        cur = t;
                        cands.push(cur);
                    } else {
                        break;
                    }
                }
                _ => break,
            }
        }
        for st in cands {
            let interesting = match st.kind() {
                ty::Adt(d, _) => d.did().is_local() || mentions_local(tcx, st),
                ty::Closure(..) | ty::FnDef(..) | ty::Coroutine(..) | ty::CoroutineClosure(..) => true,
                ty::Tuple(_) | ty::Array(..) | ty::Slice(_) => mentions_local(tcx, st),
                _ => false,
            };
            if !interesting {
                continue;
            }
            if let ty::FnDef(fd, fa) = st.kind() {
                let j = callee_json(tcx, env, *fd, fa);
                let key = format!("{:?}{:?}", fd, fa);
                if seen.insert(key) {
                    out.push(J::O(vec![("via", s(path_str(tcx, tp.def_id()))), ("target", j)]));
                }
                continue;
            }
            if let ty::Closure(d, _) | ty::Coroutine(d, _) | ty::CoroutineClosure(d, _) = st.kind() {
                let key = format!("{:?}", d);
                if seen.insert(key) {
                    let mut v = def_ref(tcx, *d);
                    v.push(("self_ty", s(ty_str(st))));
                    out.push(J::O(vec![("via", s(path_str(tcx, tp.def_id()))), ("target", J::O(v))]));
                }
                continue;
            }
            for item in tcx.associated_items(tp.def_id()).in_definition_order() {
                if !matches!(item.kind, ty::AssocKind::Fn { .. }) {
                    continue;
                }
                let gens = tcx.generics_of(item.def_id);
                if gens.own_params.iter().any(|p| matches!(p.kind, ty::GenericParamDefKind::Type { .. } | ty::GenericParamDefKind::Const { .. })) {
                    // method with its own type parameters: cannot instantiate; link by impl lookup below
                    continue;
                }
                let mut targs: Vec<ty::GenericArg<'tcx>> = tp.trait_ref.args.iter().collect();
                if st != selfty {
                    targs[0] = st.into();
                }
                let margs = ty::GenericArgs::for_item(tcx, item.def_id, |p, _| {
                    if (p.index as usize) < targs.len() {
                        targs[p.index as usize]
                    } else {
                        tcx.mk_param_from_def(p)
                    }
                });
                if let Ok(Some(mi)) = ty::Instance::try_resolve(tcx, env, item.def_id, margs) {
                    let md = mi.def_id();
                    let is_closure_self = matches!(st.kind(), ty::Closure(..) | ty::Coroutine(..) | ty::CoroutineClosure(..));
                    let target = if is_closure_self {
                        match st.kind() {
                            ty::Closure(d, _) | ty::Coroutine(d, _) | ty::CoroutineClosure(d, _) => Some(*d),
                            _ => None,
                        }
                    } else if md.is_local() {
                        Some(md)
                    } else {
                        None
                    };
                    if let Some(t) = target {
                        let key = format!("{:?}", t);
                        if seen.insert(key) {
                            let mut v = def_ref(tcx, t);
                            v.push(("self_ty", s(ty_str(st))));
                            out.push(J::O(vec![("via", s(path_str(tcx, tp.def_id()))), ("target", J::O(v))]));
                        }
                    }
                }
            }
        }
    }
    out
}

fn is_rc_like(tcx: TyCtxt<'_>, did: DefId) -> bool {
    let p = path_str(tcx, did);
    p == "std::rc::Rc" || p == "std::sync::Arc" || p == "alloc::rc::Rc" || p == "alloc::sync::Arc"
}

fn mentions_local<'tcx>(_tcx: TyCtxt<'tcx>, t: Ty<'tcx>) -> bool {
    for arg in t.walk() {
        if let Some(t) = arg.as_type() {
            match t.kind() {
                ty::Adt(d, _) if d.did().is_local() => return true,
                ty::Closure(d, _) | ty::Coroutine(d, _) | ty::FnDef(d, _) if d.is_local() => return true,
                _ => {}
            }
        }
    }
    false
}

pub fn callee_json<'tcx>(tcx: TyCtxt<'tcx>, env: TypingEnv<'tcx>, cdid: DefId, args: GenericArgsRef<'tcx>) -> J {
    let inst = ty::Instance::try_resolve(tcx, env, cdid, args).ok().flatten();
    let (rdid, rargs, resolved) = match inst {
        Some(i) => (i.def_id(), i.args, true),
        None => (cdid, args, false),
    };
    let mut v = def_ref(tcx, rdid);
    v.push(("resolved", J::B(resolved)));
    if rdid != cdid {
        v.push(("decl_path", s(path_str(tcx, cdid))));
        v.push(("decl_id", s(def_id_str(tcx, cdid))));
    }
    if let Some(inst) = inst {
        match inst.def {
            ty::InstanceKind::Item(_) => {}
            other => v.push(("shim", s(format!("{:?}", other).chars().take(60).collect::<String>()))),
        }
    }
    let gargs: Vec<J> = args.iter().filter_map(|a| a.as_type()).map(|t| s(ty_str(t))).collect();
    v.push(("gargs", J::A(gargs)));
    if let Some(tr) = tcx.trait_of_assoc(cdid) {
        v.push(("trait", s(path_str(tcx, tr))));
    }
    if let Some(imp) = tcx.impl_of_assoc(rdid) {
        let st = tcx.type_of(imp).instantiate_identity().skip_norm_wip();
        v.push(("impl_self", s(ty_str(st))));
        if let Some(tr) = tcx.impl_opt_trait_ref(imp) {
            v.push(("impl_trait", s(path_str(tcx, tr.skip_binder().def_id))));
        }
    }
    // closures called directly through Fn* shims
    if let Some(t0) = args.types().next() {
        if let ty::Closure(d, _) | ty::Coroutine(d, _) | ty::CoroutineClosure(d, _) = t0.kind() {
            v.push(("closure_self", J::O(def_ref(tcx, *d))));
        }
    }
    if !rdid.is_local() {
        let links = generic_links(tcx, env, rdid, rargs);
        if !links.is_empty() {
            v.push(("links", J::A(links)));
        }
    }
    J::O(v)
}

fn rvalue_json<'tcx>(tcx: TyCtxt<'tcx>, env: TypingEnv<'tcx>, body: &Body<'tcx>, rv: &Rvalue<'tcx>) -> J {
    let op = |o: &Operand<'tcx>| operand_json(tcx, env, body, o);
    match rv {
        Rvalue::Use(o, ..) => J::O(vec![("k", s("use")), ("a", op(o))]),
        Rvalue::Repeat(o, _) => J::O(vec![("k", s("repeat")), ("a", op(o))]),
        Rvalue::Ref(_, bk, p) => J::O(vec![
            ("k", s("ref")),
            ("mut", J::B(matches!(bk, rustc_middle::mir::BorrowKind::Mut { .. }))),
            ("bk", s(format!("{:?}", bk))),
            ("place", place_json(tcx, body, p)),
        ]),
        Rvalue::RawPtr(k, p) => J::O(vec![("k", s("rawptr")), ("bk", s(format!("{:?}", k))), ("place", place_json(tcx, body, p))]),
        Rvalue::Cast(ck, o, t) => J::O(vec![
            ("k", s("cast")),
            ("ck", s(format!("{:?}", ck))),
            ("a", op(o)),
            ("from", s(ty_str(o.ty(&body.local_decls, tcx)))),
            ("to", s(ty_str(*t))),
        ]),
        Rvalue::BinaryOp(b, ops) => J::O(vec![
            ("k", s("binop")),
            ("op", s(format!("{:?}", b))),
            ("a", op(&ops.0)),
            ("b", op(&ops.1)),
            ("aty", s(ty_str(ops.0.ty(&body.local_decls, tcx)))),
        ]),
        Rvalue::UnaryOp(u, o) => J::O(vec![
            ("k", s("unop")),
            ("op", s(format!("{:?}", u))),
            ("a", op(o)),
            ("aty", s(ty_str(o.ty(&body.local_decls, tcx)))),
        ]),
        Rvalue::Discriminant(p) => {
            let pty = p.ty(&body.local_decls, tcx).ty;
            let mut variants = vec![];
            if let ty::Adt(adt, _) = pty.kind() {
                if adt.is_enum() {
                    for (vidx, d) in adt.discriminants(tcx) {
                        variants.push(J::A(vec![J::I(d.val as i128), s(adt.variant(vidx).name.to_string())]));
                    }
                }
            }
            J::O(vec![
                ("k", s("discr")),
                ("place", place_json(tcx, body, p)),
                ("enum", s(ty_str(pty))),
                ("variants", J::A(variants)),
            ])
        }
        Rvalue::Aggregate(ak, ops) => {
            let mut v = vec![("k", s("agg"))];
            match &**ak {
                AggregateKind::Array(_) => v.push(("agg", s("array"))),
                AggregateKind::Tuple => v.push(("agg", s("tuple"))),
                AggregateKind::Adt(did, vidx, _, _, _) => {
                    let adt = tcx.adt_def(*did);
                    v.push(("agg", s("adt")));
                    v.push(("adt", s(path_str(tcx, *did))));
                    v.push(("adt_local", J::B(did.is_local())));
                    v.push(("variant", s(adt.variant(*vidx).name.to_string())));
                    let names: Vec<J> = adt.variant(*vidx).fields.iter().map(|f| s(f.name.to_string())).collect();
                    v.push(("fields", J::A(names)));
                }
                AggregateKind::Closure(did, _) | AggregateKind::Coroutine(did, _) | AggregateKind::CoroutineClosure(did, _) => {
                    v.push(("agg", s("closure")));
                    v.push(("closure", J::O(def_ref(tcx, *did))));
                }
                AggregateKind::RawPtr(..) => v.push(("agg", s("rawptr"))),
            }
            v.push(("ops", J::A(ops.iter().map(|o| op(o)).collect())));
            J::O(v)
        }
        Rvalue::CopyForDeref(p) => J::O(vec![("k", s("use")), ("a", J::O(vec![("copy", place_json(tcx, body, p))]))]),
        other => J::O(vec![("k", s("other")), ("dbg", s(format!("{:?}", other)))]),
    }
}

fn assert_json<'tcx>(tcx: TyCtxt<'tcx>, env: TypingEnv<'tcx>, body: &Body<'tcx>, m: &AssertKind<Operand<'tcx>>) -> J {
    let op = |o: &Operand<'tcx>| operand_json(tcx, env, body, o);
    let oty = |o: &Operand<'tcx>| s(ty_str(o.ty(&body.local_decls, tcx)));
    match m {
        AssertKind::BoundsCheck { len, index } => J::O(vec![("kind", s("BoundsCheck")), ("a", op(len)), ("b", op(index))]),
        AssertKind::Overflow(b, x, y) => J::O(vec![
            ("kind", s("Overflow")),
            ("op", s(format!("{:?}", b))),
            ("a", op(x)),
            ("b", op(y)),
            ("aty", oty(x)),
        ]),
        AssertKind::OverflowNeg(x) => J::O(vec![("kind", s("OverflowNeg")), ("a", op(x)), ("aty", oty(x))]),
        AssertKind::DivisionByZero(x) => J::O(vec![("kind", s("DivisionByZero")), ("a", op(x)), ("aty", oty(x))]),
        AssertKind::RemainderByZero(x) => J::O(vec![("kind", s("RemainderByZero")), ("a", op(x)), ("aty", oty(x))]),
        AssertKind::MisalignedPointerDereference { .. } => J::O(vec![("kind", s("Misaligned"))]),
        AssertKind::NullPointerDereference => J::O(vec![("kind", s("NullPointer"))]),
        other => J::O(vec![("kind", s("Other")), ("dbg", s(format!("{:?}", other)))]),
    }
}

fn block_json<'tcx>(tcx: TyCtxt<'tcx>, env: TypingEnv<'tcx>, body: &Body<'tcx>, data: &BasicBlockData<'tcx>) -> J {
    let mut stmts = vec![];
    for st in data.statements.iter() {
        match &st.kind {
            StatementKind::Assign(b) => {
                let (p, rv) = &**b;
                stmts.push(J::O(vec![
                    ("k", s("assign")),
                    ("place", place_json(tcx, body, p)),
                    ("rv", rvalue_json(tcx, env, body, rv)),
                    ("loc", loc(tcx, st.source_info.span)),
                ]));
            }
            StatementKind::SetDiscriminant { place, variant_index } => {
                stmts.push(J::O(vec![
                    ("k", s("setdiscr")),
                    ("place", place_json(tcx, body, place)),
                    ("vi", json::i(variant_index.index())),
                ]));
            }
            StatementKind::Intrinsic(i) => {
                stmts.push(J::O(vec![("k", s("intrinsic")), ("dbg", s(format!("{:?}", i)))]));
            }
            _ => {}
        }
    }
    let term = data.terminator();
    let mut t = vec![("loc", loc(tcx, term.source_info.span))];
    match &term.kind {
        TerminatorKind::Goto { target } => {
            t.push(("k", s("goto")));
            t.push(("target", json::i(target.index())));
        }
        TerminatorKind::SwitchInt { discr, targets } => {
            t.push(("k", s("switch")));
            t.push(("discr", operand_json(tcx, env, body, discr)));
            t.push(("dty", s(ty_str(discr.ty(&body.local_decls, tcx)))));
            let tv: Vec<J> = targets.iter().map(|(v, b)| J::A(vec![J::I(v as i128), json::i(b.index())])).collect();
            t.push(("targets", J::A(tv)));
            t.push(("otherwise", json::i(targets.otherwise().index())));
        }
        TerminatorKind::Return => t.push(("k", s("return"))),
        TerminatorKind::Unreachable => t.push(("k", s("unreachable"))),
        TerminatorKind::UnwindResume => t.push(("k", s("resume"))),
        TerminatorKind::UnwindTerminate(_) => t.push(("k", s("terminate"))),
        TerminatorKind::Drop { place, target, unwind, .. } => {
            t.push(("k", s("drop")));
            t.push(("place", place_json(tcx, body, place)));
            t.push(("target", json::i(target.index())));
            if let rustc_middle::mir::UnwindAction::Cleanup(b) = unwind {
                t.push(("unwind", json::i(b.index())));
            }
        }
        TerminatorKind::Call { func, args, destination, target, unwind, fn_span, .. } => {
            t.push(("k", s("call")));
            let fty = func.ty(&body.local_decls, tcx);
            match fty.kind() {
                ty::FnDef(cdid, gargs) => t.push(("callee", callee_json(tcx, env, *cdid, gargs))),
                _ => {
                    t.push(("indirect", operand_json(tcx, env, body, func)));
                    t.push(("fty", s(ty_str(fty))));
                }
            }
            t.push(("args", J::A(args.iter().map(|a| operand_json(tcx, env, body, &a.node)).collect())));
            t.push(("dest", place_json(tcx, body, destination)));
            t.push(("target", opt(target.map(|b| json::i(b.index())))));
            if let rustc_middle::mir::UnwindAction::Cleanup(b) = unwind {
                t.push(("unwind", json::i(b.index())));
            }
            t.push(("fn_loc", loc(tcx, *fn_span)));
        }
        TerminatorKind::TailCall { .. } => t.push(("k", s("tailcall"))),
        TerminatorKind::Assert { cond, expected, msg, target, .. } => {
            t.push(("k", s("assert")));
            t.push(("cond", operand_json(tcx, env, body, cond)));
            t.push(("expected", J::B(*expected)));
            t.push(("msg", assert_json(tcx, env, body, msg)));
            t.push(("target", json::i(target.index())));
        }
        TerminatorKind::Yield { resume, drop, .. } => {
            t.push(("k", s("yield")));
            t.push(("target", json::i(resume.index())));
            t.push(("drop", opt(drop.map(|b| json::i(b.index())))));
        }
        TerminatorKind::CoroutineDrop => t.push(("k", s("coroutine_drop"))),
        TerminatorKind::FalseEdge { real_target, .. } => {
            t.push(("k", s("goto")));
            t.push(("target", json::i(real_target.index())));
        }
        TerminatorKind::FalseUnwind { real_target, .. } => {
            t.push(("k", s("goto")));
            t.push(("target", json::i(real_target.index())));
        }
        TerminatorKind::InlineAsm { targets, .. } => {
            t.push(("k", s("asm")));
            t.push(("targets", J::A(targets.iter().map(|b| json::i(b.index())).collect())));
        }
    }
    J::O(vec![("cleanup", J::B(data.is_cleanup)), ("stmts", J::A(stmts)), ("term", J::O(t))])
}

pub fn dump_all<'tcx>(tcx: TyCtxt<'tcx>) -> Vec<J> {
    let mut out = vec![];
    for ldid in tcx.mir_keys(()) {
        let did = ldid.to_def_id();
        let kind = tcx.def_kind(did);
        if !matches!(kind, DefKind::Fn | DefKind::AssocFn | DefKind::Closure) {
            continue;
        }
        let body = tcx.optimized_mir(did);
        let env = TypingEnv::post_analysis(tcx, did);
        let mut v = def_ref(tcx, did);
        v.push(("kind", s(format!("{:?}", kind))));
        v.push(("loc", loc(tcx, tcx.def_span(did))));
        v.push(("from_expansion", J::B(tcx.def_span(did).from_expansion())));
        if matches!(kind, DefKind::Fn | DefKind::AssocFn) {
            v.push(("public", J::B(tcx.visibility(did).is_public())));
            v.push(("name", s(tcx.item_name(did).to_string())));
        }
        let root = tcx.typeck_root_def_id(did);
        if root != did {
            v.push(("root", J::O(def_ref(tcx, root))));
            let parent = tcx.parent(did);
            v.push(("parent", J::O(def_ref(tcx, parent))));
        }
        if kind == DefKind::AssocFn {
            if let Some(imp) = tcx.impl_of_assoc(did) {
                let st = tcx.type_of(imp).instantiate_identity().skip_norm_wip();
                v.push(("impl_self", s(ty_str(st))));
                if let Some(tr) = tcx.impl_opt_trait_ref(imp) {
                    let tr = tr.skip_binder();
                    v.push(("impl_trait", s(path_str(tcx, tr.def_id))));
                    v.push(("impl_trait_ref", s(rustc_middle::ty::print::with_no_visible_paths!(rustc_middle::ty::print::with_no_trimmed_paths!(format!("{}", tr))))));
                }
            } else if let Some(tr) = tcx.trait_of_assoc(did) {
                v.push(("default_of_trait", s(path_str(tcx, tr))));
            }
        }
        v.push(("arg_count", json::i(body.arg_count)));
        let locals: Vec<J> = body.local_decls.iter().map(|d| s(ty_str(d.ty))).collect();
        v.push(("locals", J::A(locals)));
        let mut names = vec![];
        for vdi in body.var_debug_info.iter() {
            if let VarDebugInfoContents::Place(p) = &vdi.value {
                names.push(J::O(vec![("name", s(vdi.name.to_string())), ("place", place_json(tcx, body, p))]));
            }
        }
        v.push(("vars", J::A(names)));
        let blocks: Vec<J> = body.basic_blocks.iter().map(|d| block_json(tcx, env, body, d)).collect();
        v.push(("blocks", J::A(blocks)));
        out.push(J::O(v));
    }
    out
}
