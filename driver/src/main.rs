//! rinkfacts: a rustc_private driver that dumps, for every workspace crate it is wrapped
//! around (RUSTC_WORKSPACE_WRAPPER), a JSON fact file: MIR bodies (CFG, resolved callees,
//! structured statements), HIR expression trees with resolved paths and types, ADT
//! definitions with a deep interior-mutability walk, statics and unsafe blocks.
//! Nothing is decided here; rules/ (Python) decide over these facts.
#![feature(rustc_private)]
#![allow(clippy::all)]

extern crate rustc_abi;
extern crate rustc_ast;
extern crate rustc_driver;
extern crate rustc_hir;
extern crate rustc_interface;
extern crate rustc_middle;
extern crate rustc_span;

mod hirdump;
mod json;
mod mirdump;
mod tydump;

use json::{s, J};
use rustc_driver::Compilation;
use rustc_hir::def_id::{DefId, LOCAL_CRATE};
use rustc_middle::ty::TyCtxt;
use std::io::Write;

pub fn def_id_str(tcx: TyCtxt<'_>, did: DefId) -> String {
    // stable across crates: DefPathHash
    let h = tcx.def_path_hash(did);
    format!("{:x}", h.0.to_smaller_hash().as_u64()) + &format!("{:x}", h.stable_crate_id().as_u64())
}

pub fn path_str(tcx: TyCtxt<'_>, did: DefId) -> String {
    rustc_middle::ty::print::with_no_visible_paths!(rustc_middle::ty::print::with_no_trimmed_paths!(tcx.def_path_str(did)))
}

pub fn crate_of(tcx: TyCtxt<'_>, did: DefId) -> String {
    tcx.crate_name(did.krate).to_string()
}

pub fn loc(tcx: TyCtxt<'_>, sp: rustc_span::Span) -> J {
    let sm = tcx.sess.source_map();
    let cs = sp.source_callsite();
    let lo = sm.lookup_char_pos(cs.lo());
    let hi = sm.lookup_char_pos(cs.hi());
    let file = match &lo.file.name {
        rustc_span::FileName::Real(r) => r
            .local_path()
            .map(|p| p.display().to_string())
            .unwrap_or_else(|| format!("{:?}", r)),
        o => format!("{:?}", o),
    };
    let mut v = vec![
        ("file", s(file)),
        ("line", json::i(lo.line)),
        ("col", json::i(lo.col.0 + 1)),
        ("eline", json::i(hi.line)),
    ];
    if sp.from_expansion() {
        let ed = sp.ctxt().outer_expn_data();
        v.push(("exp", s(format!("{:?}", ed.kind))));
        // the innermost user-visible macro name chain
        let mut chain = vec![];
        let mut cur = sp;
        let mut guard = 0;
        while cur.from_expansion() && guard < 8 {
            let d = cur.ctxt().outer_expn_data();
            chain.push(s(format!("{:?}", d.kind)));
            cur = d.call_site;
            guard += 1;
        }
        v.push(("expchain", J::A(chain)));
    }
    J::O(v)
}

struct Cb;

impl rustc_driver::Callbacks for Cb {
    fn after_analysis<'tcx>(
        &mut self,
        _c: &rustc_interface::interface::Compiler,
        tcx: TyCtxt<'tcx>,
    ) -> Compilation {
        let out_dir = match std::env::var("RINKFACTS_OUT") {
            Ok(d) => d,
            Err(_) => return Compilation::Continue,
        };
        let krate = tcx.crate_name(LOCAL_CRATE).to_string();
        if krate == "build_script_build" {
            return Compilation::Continue;
        }
        std::fs::create_dir_all(&out_dir).ok();
        let crate_types: Vec<J> = tcx.crate_types().iter().map(|t| s(format!("{:?}", t))).collect();
        let is_test = tcx.sess.opts.test;
        let fns = mirdump::dump_all(tcx);
        let hir = hirdump::dump_all(tcx);
        let consts = hirdump::dump_consts(tcx);
        let (adts, statics) = tydump::dump_all(tcx);
        let root = J::O(vec![
            ("crate", s(&krate)),
            ("crate_types", J::A(crate_types)),
            ("is_test", J::B(is_test)),
            ("fns", J::A(fns)),
            ("hir", J::A(hir)),
            ("consts", J::A(consts)),
            ("adts", J::A(adts)),
            ("statics", J::A(statics)),
        ]);
        let mut buf = String::with_capacity(1 << 24);
        root.write(&mut buf);
        buf.push('\n');
        let sid = tcx.stable_crate_id(LOCAL_CRATE).as_u64();
        let kind = if is_test { "test" } else { "build" };
        let tmp = format!("{}/.{}-{:x}-{}.tmp", out_dir, krate, sid, std::process::id());
        let fin = format!("{}/{}-{}-{:x}.json", out_dir, krate, kind, sid);
        let mut f = std::fs::File::create(&tmp).expect("create fact file");
        f.write_all(buf.as_bytes()).expect("write fact file");
        drop(f);
        std::fs::rename(&tmp, &fin).expect("rename fact file");
        Compilation::Continue
    }
}

fn main() {
    let mut args: Vec<String> = std::env::args().collect();
    // RUSTC_WORKSPACE_WRAPPER passes the real rustc path as argv[1]
    if args.len() > 1 && (args[1].ends_with("rustc") || args[1].contains("/rustc")) {
        args.remove(1);
    }
    rustc_driver::run_compiler(&args, &mut Cb);
}
