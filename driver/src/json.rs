//! Minimal JSON value + writer (the driver has no cargo dependencies).
use std::fmt::Write;

#[derive(Clone)]
pub enum J {
    Null,
    B(bool),
    I(i128),
    S(String),
    A(Vec<J>),
    O(Vec<(&'static str, J)>),
}

pub fn s<T: AsRef<str>>(x: T) -> J {
    J::S(x.as_ref().to_string())
}
pub fn i<T: TryInto<i128>>(x: T) -> J {
    J::I(x.try_into().ok().unwrap_or(0))
}
pub fn opt(x: Option<J>) -> J {
    x.unwrap_or(J::Null)
}

impl J {
    pub fn write(&self, out: &mut String) {
        match self {
            J::Null => out.push_str("null"),
            J::B(b) => out.push_str(if *b { "true" } else { "false" }),
            J::I(n) => {
                let _ = write!(out, "{}", n);
            }
            J::S(x) => esc(x, out),
            J::A(v) => {
                out.push('[');
                for (k, e) in v.iter().enumerate() {
                    if k > 0 {
                        out.push(',');
                    }
                    e.write(out);
                }
                out.push(']');
            }
            J::O(v) => {
                out.push('{');
                let mut first = true;
                for (k, e) in v.iter() {
                    if matches!(e, J::Null) {
                        continue;
                    }
                    if !first {
                        out.push(',');
                    }
                    first = false;
                    esc(k, out);
                    out.push(':');
                    e.write(out);
                }
                out.push('}');
            }
        }
    }
}

fn esc(x: &str, out: &mut String) {
    out.push('"');
    for c in x.chars() {
        match c {
            '"' => out.push_str("\\\""),
            '\\' => out.push_str("\\\\"),
            '\n' => out.push_str("\\n"),
            '\r' => out.push_str("\\r"),
            '\t' => out.push_str("\\t"),
            c if (c as u32) < 0x20 => {
                let _ = write!(out, "\\u{:04x}", c as u32);
            }
            c => out.push(c),
        }
    }
    out.push('"');
}
