"""Exact-rational constant folder over the entries produced by reader.parse (Fraction arithmetic),
with the exact -> prefix -> plural resolution order of the registry."""
from fractions import Fraction


class Cant(Exception):
    pass


def dim_mul(a, b, s=1):
    r = dict(a)
    for k, v in b.items():
        r[k] = r.get(k, 0) + s * v
        if r[k] == 0:
            del r[k]
    return r


class Folder:
    def __init__(self, defs):
        self.units = {}
        self.base = {}
        self.longbase = {}
        self.prefixes = []
        self.memo = {}
        for d in defs:
            if d["kind"] == "base":
                self.base[d["name"]] = 1
                if d.get("long"):
                    self.longbase[d["long"]] = d["name"]
            elif d["kind"] == "unit":
                self.units.setdefault(d["name"], d["expr"])
            elif d["kind"] in ("prefixL", "prefixS"):
                self.prefixes.append((d["name"], d["expr"], d["kind"] == "prefixL"))

    def pval(self, e):
        k = e[0]
        if k == "const":
            return e[1]
        if k == "unit":
            for n, x, _ in self.prefixes:
                if n == e[1]:
                    return self.pval(x)
            raise Cant("prefix " + e[1])
        if k == "frac":
            return self.pval(e[1]) / self.pval(e[2])
        if k == "pow":
            return self.pval(e[1]) ** int(self.pval(e[2]))
        if k == "neg":
            return -self.pval(e[1])
        raise Cant(str(e)[:40])

    def exact(self, name, stack):
        if name in self.base:
            return (Fraction(1), {name: 1})
        if name in self.longbase:
            return (Fraction(1), {self.longbase[name]: 1})
        if name in self.units:
            if name in stack:
                raise Cant("cycle " + name)
            if name not in self.memo:
                self.memo[name] = self.ev(self.units[name], stack + (name,))
            return self.memo[name]
        for n, x, l in self.prefixes:
            if l and n == name:
                return (self.pval(x), {})
        return None

    def with_prefix(self, name, stack):
        r = self.exact(name, stack)
        if r:
            return r
        for n, x, _ in self.prefixes:
            if name.startswith(n):
                r = self.exact(name[len(n):], stack)
                if r:
                    return (r[0] * self.pval(x), r[1])
        return None

    def lookup(self, name, stack=()):
        r = self.with_prefix(name, stack)
        if r:
            return r
        if name.endswith("s"):
            r = self.with_prefix(name[:-1], stack)
            if r:
                return r
        raise Cant("unknown " + name)

    def ev(self, e, stack=()):
        k = e[0]
        if k == "const":
            return (e[1], {})
        if k == "unit":
            return self.lookup(e[1], stack)
        if k == "mul":
            v = (Fraction(1), {})
            for x in e[1]:
                y = self.ev(x, stack)
                v = (v[0] * y[0], dim_mul(v[1], y[1]))
            return v
        if k == "frac":
            a = self.ev(e[1], stack)
            b = self.ev(e[2], stack)
            if b[0] == 0:
                raise Cant("div0")
            return (a[0] / b[0], dim_mul(a[1], b[1], -1))
        if k in ("add", "sub"):
            a = self.ev(e[1], stack)
            b = self.ev(e[2], stack)
            if a[1] != b[1]:
                raise Cant("dim mismatch")
            return (a[0] + b[0] if k == "add" else a[0] - b[0], a[1])
        if k == "pow":
            a = self.ev(e[1], stack)
            b = self.ev(e[2], stack)
            if b[1] or b[0].denominator != 1:
                raise Cant("nonint pow")
            n = int(b[0])
            if a[0] == 0 and n < 0:
                raise Cant("0^-n")
            return (a[0] ** n, {u: p * n for u, p in a[1].items() if p * n != 0})
        if k == "neg":
            a = self.ev(e[1], stack)
            return (-a[0], a[1])
        if k == "pos":
            return self.ev(e[1], stack)
        raise Cant(k)
