"""Data lints over the bundled definition files (names, references, alias chains, categories)."""
import collections
import re


def names_in(e, out):
    k = e[0]
    if k == "unit":
        out.append(e[1])
    elif k == "mul":
        for x in e[1]:
            names_in(x, out)
    elif k in ("frac", "pow", "add", "sub"):
        names_in(e[1], out)
        names_in(e[2], out)
    elif k in ("neg", "pos"):
        names_in(e[1], out)
    elif k == "of":
        names_in(e[2], out)


FUNCTIONS = set()


def namespaces(defs):
    ns = collections.defaultdict(list)
    for d in defs:
        n = {"prefixL": "prefix", "prefixS": "prefix", "quantity": "quantity", "category": "category"}.get(d["kind"], "unit")
        ns[(n, d["name"])].append(d)
        if d["kind"] == "base" and d.get("long"):
            ns[("unit", d["long"])].append(d)
    return ns


def lint(defs, extra_exact=()):
    ns = namespaces(defs)
    dups = sorted(k for k, v in ns.items() if len(v) > 1 and k[0] != "category")
    exact = set(n for (k, n) in ns if k in ("unit", "quantity")) | set(
        n for (k, n), v in ns.items() if k == "prefix" and any(x["kind"] == "prefixL" for x in v)) | set(extra_exact)
    prefixes = [n for (k, n) in ns if k == "prefix"]
    symbols = {d["symbol"] for d in defs if d["kind"] == "substance" and d.get("symbol")}
    quantities = {x for (k, x) in ns if k == "quantity"}

    def formula(n):
        toks = re.findall(r"[A-Z][a-z]?|\d+|.", n)
        return bool(toks) and all((t in symbols) or t.isdigit() for t in toks) and toks[0] in symbols

    def wp(n):
        return n in exact or any(n.startswith(p) and n[len(p):] in exact for p in prefixes)

    def res(n):
        return wp(n) or (n.endswith("s") and wp(n[:-1])) or n in symbols or formula(n)

    bad = []
    nrefs = 0
    for d in defs:
        exprs = []
        if "expr" in d:
            exprs.append(d["expr"])
        for p in d.get("props", []):
            exprs += [p["input"], p["output"]]
        for e in exprs:
            o = []
            names_in(e, o)
            nrefs += len(o)
            if d["kind"] == "quantity":
                for n in o:
                    if n not in quantities and ("unit", n) not in ns:
                        bad.append((d["name"], n, "quantity-ref"))
            elif d["kind"].startswith("prefix"):
                for n in o:
                    if ("prefix", n) not in ns:
                        bad.append((d["name"], n, "prefix-ref"))
            else:
                for n in o:
                    if not res(n):
                        bad.append((d["name"], n, "unit-ref"))
    cats = {d["name"] for d in defs if d["kind"] == "category"}
    badcat = [(d["name"], d["category"]) for d in defs if d.get("category") and d["category"] not in cats]
    # alias chains: unit whose definition is a single name
    alias = {d["name"]: d["expr"][1] for d in defs if d["kind"] == "unit" and d["expr"][0] == "unit"}
    badalias = []
    for a in alias:
        seen = set()
        cur = a
        while cur in alias and cur not in seen:
            seen.add(cur)
            cur = alias[cur]
        if cur in seen:
            badalias.append((a, "cycle"))
        elif not res(cur):
            badalias.append((a, "dangling " + cur))
    return {"defs": len(defs), "refs": nrefs, "dups": dups, "unresolved": bad, "badcat": badcat, "badalias": badalias,
            "aliases": len(alias)}
