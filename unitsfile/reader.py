"""Independent reader for the GNU-units-style definition files (mirrors the grammar of core/src/loader/gnu_units.rs).
It reads data only; it never runs rink."""
import sys, re
from fractions import Fraction
def is_ident(c): return c not in ' \t\n\r()/|^+*\\#'
class Lex:
    def __init__(s, text): s.t=text; s.i=0
    def peekc(s): return s.t[s.i] if s.i<len(s.t) else None
    def nextc(s):
        c=s.peekc()
        if c is not None: s.i+=1
        return c
    def next(s):
        while True:
            c=s.nextc()
            if c is None: return ('eof',)
            if c in ' \t': continue
            if c=='\r':
                if s.peekc()=='\n': s.nextc()
                return ('nl',)
            if c=='\n': return ('nl',)
            if c in '!()/|^-+*{}': return (c,)
            if c=='?':
                if s.peekc()=='?':
                    s.nextc(); out=''
                    while True:
                        x=s.nextc()
                        if x is None or x=='\n': break
                        out+=x
                    return ('doc',out)
                return ('?',)
            if c=='\\':
                x=s.nextc()
                if x=='\r':
                    if s.nextc()=='\n': continue
                    return ('err','crlf')
                if x=='\n': continue
                return ('err','escape')
            if c=='#':
                while True:
                    x=s.nextc()
                    if x is None or x=='\n': break
                return ('nl',)
            if c.isdigit() and c in '0123456789' or c=='.':
                integer=''; frac=None; exp=None
                if c!='.':
                    integer=c
                    while s.peekc() is not None and s.peekc() in '0123456789': integer+=s.nextc()
                else: integer='0'
                if c=='.' or s.peekc()=='.':
                    buf=''
                    if c!='.': s.nextc()
                    while s.peekc() is not None and s.peekc() in '0123456789': buf+=s.nextc()
                    if buf: frac=buf
                if s.peekc() is not None and s.peekc().lower()=='e':
                    buf=''; s.nextc()
                    if s.peekc()=='-': buf+=s.nextc()
                    elif s.peekc()=='+': s.nextc()
                    while s.peekc() is not None and s.peekc() in '0123456789': buf+=s.nextc()
                    if buf: exp=buf
                return ('num',integer,frac,exp)
            if c=='"':
                buf=''
                while True:
                    x=s.nextc()
                    if x is None: break
                    if x=='\\':
                        y=s.nextc()
                        if y is not None: buf+=y
                    elif x=='"': break
                    else: buf+=x
                return ('id',buf)
            if is_ident(c):
                buf=c
                while s.peekc() is not None and (is_ident(s.peekc()) or s.peekc().isnumeric()): buf+=s.nextc()
                return ('id',buf)
            return ('err','char')
class Toks:
    def __init__(s,text): s.l=Lex(text); s.buf=None
    def peek(s):
        if s.buf is None: s.buf=s.l.next()
        return s.buf
    def next(s):
        t=s.peek(); s.buf=None; return t
def p_term(it):
    t=it.next()
    if t[0]=='id':
        n=it.peek()
        if n==('id','of'):
            it.next(); return ('of',t[1],p_mul(it))
        return ('unit',t[1])
    if t[0]=='num':
        v=Fraction(int(t[1]))
        if t[2] is not None: v+=Fraction(int(t[2]),10**len(t[2]))
        if t[3] is not None: v*=Fraction(10)**int(t[3])
        return ('const',v)
    if t[0]=='+': return ('pos',p_term(it))
    if t[0]=='-': return ('neg',p_term(it))
    if t[0]=='/': return ('frac',('const',Fraction(1)),p_term(it))
    if t[0]=='(':
        r=p_expr(it)
        return r if it.next()[0]==')' else ('error',)
    return ('error',t)
def p_pow(it):
    l=p_term(it)
    if it.peek()[0]=='^': it.next(); return ('pow',l,p_pow(it))
    if it.peek()[0]=='|': it.next(); return ('frac',l,p_pow(it))
    return l
def p_mul(it):
    # juxtaposition only; `*` has the precedence of `/` (GNU units and rink's query language: 12 m / 2 * 3 = 18 m)
    terms=[p_pow(it)]
    while True:
        k=it.peek()[0]
        if k in ('/','*','+','-',')','nl','eof'): break
        terms.append(p_pow(it))
    return terms[0] if len(terms)==1 else ('mul',terms)
def p_div(it):
    l=p_mul(it)
    while it.peek()[0] in ('/','*'):
        k=it.next()[0]
        l=('frac',l,p_mul(it)) if k=='/' else ('mul',[l,p_mul(it)])
    return l
def p_add(it):
    # left-associative: 10 m - 2 m - 3 m = 5 m
    l=p_div(it)
    while it.peek()[0] in ('+','-'):
        k=it.next()[0]
        l=('add',l,p_div(it)) if k=='+' else ('sub',l,p_div(it))
    return l
p_expr=p_add
def parse(text):
    it=Toks(text); out=[]; doc=None; category=None; symbols={}
    while True:
        t=it.next()
        if t[0]=='nl': continue
        if t[0]=='eof': break
        if t[0]=='!':
            d=it.next()
            if d==('id','category'):
                a,b=it.next(),it.next()
                if a[0]=='id' and b[0]=='id':
                    out.append(dict(name=a[1],kind='category',display=b[1],category=None)); category=a[1]
            elif d==('id','endcategory'): category=None
            elif d==('id','symbol'):
                a,b=it.next(),it.next()
                if a[0]=='id' and b[0]=='id': symbols[a[1]]=b[1]
            else:
                while it.peek()[0] not in ('nl','eof'): it.next()
            continue
        if t[0]=='doc':
            doc=t[1].strip() if doc is None else doc.strip()+' '+t[1].strip(); continue
        if t[0]=='id':
            name=t[1]
            if name.endswith('-'):
                e=p_expr(it); name=name[:-1]
                if name.endswith('-'): out.append(dict(name=name[:-1],kind='prefixS',expr=e,category=category,doc=doc))
                else: out.append(dict(name=name,kind='prefixL',expr=e,category=category,doc=doc))
                doc=None
            elif it.peek()[0]=='!':
                it.next(); ln=None
                if it.peek()[0]=='id': ln=it.next()[1]
                out.append(dict(name=name,kind='base',long=ln,category=category,doc=doc)); doc=None
            elif it.peek()[0]=='?':
                it.next(); out.append(dict(name=name,kind='quantity',expr=p_expr(it),category=category,doc=doc)); doc=None
            elif it.peek()[0]=='{':
                it.next(); props=[]
                while True:
                    x=it.next()
                    if x[0]=='id': pname=x[1]
                    elif x[0]=='nl': continue
                    elif x[0]=='eof': break
                    elif x[0]=='doc': continue
                    elif x[0]=='}': break
                    else: break
                    y=it.next()
                    if y==('id','const'):
                        z=it.next()
                        if z[0]!='id': break
                        props.append(dict(name=pname,input_name=z[1],input=('const',Fraction(1)),output_name=pname,output=p_div(it))); continue
                    if y[0]!='id': break
                    outname=y[1]; output=p_mul(it)
                    if it.next()[0]!='/': break
                    z=it.next()
                    if z[0]!='id': break
                    props.append(dict(name=pname,input_name=z[1],input=p_mul(it),output_name=outname,output=output))
                out.append(dict(name=name,kind='substance',props=props,category=category,doc=doc)); doc=None
            else:
                out.append(dict(name=name,kind='unit',expr=p_expr(it),category=category,doc=doc)); doc=None
            continue
    for d in out:
        if d['kind']=='substance': d['symbol']=symbols.get(d['name'])
    return out
if __name__=='__main__':
    defs=parse(open(sys.argv[1]).read())
    for d in defs: print(d['name'],d.get('category') or '',d['kind'],sep='\t')
