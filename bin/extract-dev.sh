#!/bin/bash
# dev helper: run the driver over /repo (or $1) into $W/facts-dev
W=${VERIF_WORK:-/var/tmp/rinkverif}
SRC=${1:-/repo}
OUT=${2:-$W/facts-dev}
rm -rf "$OUT"; mkdir -p "$OUT"
cd "$SRC" || exit 2
rm -rf $W/target/debug/.fingerprint/rink-* $W/target/debug/.fingerprint/rink_* 
LD_LIBRARY_PATH=$(rustc +nightly --print sysroot)/lib RUSTFLAGS="-Zmir-opt-level=0 -Awarnings --cfg rustix_use_libc" \
RUSTC_WORKSPACE_WRAPPER=/verif/driver/target/debug/rinkfacts RINKFACTS_OUT=$OUT CARGO_TARGET_DIR=$W/target \
CARGO_NET_OFFLINE=true cargo +nightly check --offline --workspace 2>&1
