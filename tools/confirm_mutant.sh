#!/bin/bash
# tools/confirm_mutant.sh <PROP> <mk> [demo_dest_dir=core/tests]
# env: SRCROOT (default /tmp/mut: where the sub-agent wrote <PROP>-out/<mk>/), BASE (commit to confirm against; default the
#      pinned commit db9fd12; round 2 uses the repaired main), OUTK (name under /verif/seeded, default <mk>)
# Confirms a seeded change in a scratch worktree (outside /repo and /verif) at the PINNED commit:
#  1. unchanged tree: demo passes;  2. with the change: workspace builds, the existing suite passes, demo fails.
# On success copies patch + demo + meta.json to /verif/seeded/<PROP>-<mk>/ .
set -u
P=$1; K=$2; DEST=${3:-core/tests}
SRCROOT=${SRCROOT:-/tmp/mut}; BASE=${BASE:-db9fd12}; OUTK=${OUTK:-$K}
SRC=$SRCROOT/$P-out/$K
WT=/tmp/confirm-wt
PIN=$(cat /root/.vp/repo_root_sha 2>/dev/null || echo db9fd12)
LOG=$SRC/confirm.log
export CARGO_NET_OFFLINE=true RUST_BACKTRACE=0 CARGO_TARGET_DIR=/tmp/confirm-target
exec 9>/tmp/confirm.lock; flock 9
if [ ! -d $WT ]; then git -C /repo worktree add -q --detach $WT $BASE || exit 2; fi
cd $WT && git checkout -q --detach $BASE && git checkout -q -- . && git clean -fdq
DEMOS=$(ls $SRC | grep -E '^demo.*\.rs$')
[ -z "$DEMOS" ] && { echo "no demo .rs in $SRC"; exit 2; }
mkdir -p $WT/$DEST
for d in $DEMOS; do cp $SRC/$d $WT/$DEST/; done
NAMES=$(for d in $DEMOS; do echo -n "--test ${d%.rs} "; done)
RUNNER="cargo test --offline"
if [ "${MODE:-test}" = example ]; then NAMES=$(for d in $DEMOS; do echo -n "--example ${d%.rs} "; done); RUNNER="cargo run --offline"; fi
PKG=""; case $DEST in core/*) PKG="-p rink-core --features ${FEATURES:-bundle-files}";; cli/*) PKG="-p rink";; sandbox/*) PKG="-p rink-sandbox";; esac
{
echo "== 1. unchanged tree, demo"; if [ "${MODE:-test}" = example ]; then $RUNNER $PKG $NAMES > $LOG.ex 2>&1; echo "exit=$?" ; tail -3 $LOG.ex; else cargo test --offline $PKG $NAMES 2>&1 | grep -E "^test result|FAILED|panicked|error(\[|:)" | head -20; fi
} > $LOG
{ grep -q "test result: ok" $LOG && ! grep -q "FAILED\|error" $LOG; } || { [ "${MODE:-test}" = example ] && grep -q "exit=0" $LOG; } || { echo "$P $K: demo does not pass on the unchanged tree"; tail -5 $LOG; exit 1; }
git apply $SRC/patch.diff || { echo "$P $K: patch does not apply"; exit 1; }
{
echo "== 2. with change, suite"; for d in $DEMOS; do rm $WT/$DEST/$d; done
cargo test --workspace --no-fail-fast --offline 2>&1 | grep -E "^test result|FAILED|failed|^error" | head -40
} > $LOG.suite
PASSED=$(grep "^test result: ok" $LOG.suite | sed -E 's/.*ok\. ([0-9]+) passed.*/\1/' | paste -sd+ | bc)
if grep -q "FAILED\|^error" $LOG.suite || [ "$PASSED" != "152" ]; then echo "$P $K: existing suite not green with the change (passed=$PASSED)"; grep -E "FAILED|error" $LOG.suite | head; exit 1; fi
mkdir -p $WT/$DEST; for d in $DEMOS; do cp $SRC/$d $WT/$DEST/; done
{ echo "== 3. with change, demo"; if [ "${MODE:-test}" = example ]; then $RUNNER $PKG $NAMES > $LOG.ex 2>&1; rc=$?; tail -3 $LOG.ex; [ $rc -ne 0 ] && echo "FAILED exit=$rc"; else cargo test --offline $PKG $NAMES 2>&1 | grep -E "^test result|FAILED|panicked|error: test failed|SIGABRT" | sed "s/error: test failed/FAILED (test binary aborted): error: test failed/" | head -20; fi; } > $LOG.demo
grep -q "FAILED" $LOG.demo || { echo "$P $K: demo does not fail with the change"; cat $LOG.demo; exit 1; }
OUT=/verif/seeded/$P-$OUTK; mkdir -p $OUT
cp $SRC/patch.diff $OUT/; for d in $DEMOS; do cp $SRC/$d $OUT/; done; cp $SRC/notes.md $OUT/notes.md 2>/dev/null
cat $LOG $LOG.suite $LOG.demo > $OUT/confirm.log
python3 - "$P" "$OUTK" "$DEST" "$DEMOS" "$BASE" <<'PY'
import json,sys,os
P,K,DEST,DEMOS,BASE=sys.argv[1:6]
out='/verif/seeded/%s-%s'%(P,K)
notes=open(out+'/notes.md').read() if os.path.exists(out+'/notes.md') else ''
meta={"property":P,"id":"%s-%s"%(P,K),"patch":"patch.diff","demo":DEMOS.split(),"demo_dest":DEST,
 "needs_to_manifest":"see notes.md (written by the independent sub-agent that produced the change)",
 "confirmed":{"base_commit":BASE,"unchanged_tree_demo":"pass","with_change_build":"ok","with_change_suite":"152 passed","with_change_demo":"FAILED",
   "commands":["cargo test --offline <pkg> --test <demo> (unchanged tree)","git apply patch.diff","cargo test --workspace --no-fail-fast --offline","cargo test --offline <pkg> --test <demo>"]},
 "detected_by":None}
json.dump(meta,open(out+'/meta.json','w'),indent=1)
PY
cd $WT && git checkout -q -- . && git clean -fdq
echo "$P $K: CONFIRMED -> $OUT"
