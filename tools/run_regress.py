#!/usr/bin/env python3
"""tools/run_regress.py [commit ...]: "a fixed entry suppresses nothing ... and reports the violation again if it ever returns".

For every `fixed:` line of KNOWN_FINDINGS.txt the repair commit is taken out again (its patch applied in reverse) on a scratch
copy of /repo's current tree, outside /repo and /verif, and the check of the recorded property is run against that copy
(VERIF_REPO).  The defect is back, so the check has to exit 1 with a VIOLATION line.  When the property's own check is silent
every other check is tried (some repairs were recorded under the property whose hunter found them and are reported by the
check of the clause's owner).  Results go to regress/RESULTS.md and regress/results.json.  Nothing here is a registered check:
it tests the checkers, on demand."""
import json, os, re, shutil, subprocess, sys
V = os.path.dirname(os.path.dirname(os.path.abspath(__file__)))
sys.path.insert(0, os.path.join(V, "rules"))
import facts  # noqa: E402
from thorough import scratch_copy  # noqa: E402

ALL = ["C%02d" % i for i in range(1, 21) if i != 5]


def sh(cmd, **kw):
    return subprocess.run(cmd, shell=True, capture_output=True, text=True, **kw)


def fixed_lines():
    out = []
    for line in open(os.path.join(V, "KNOWN_FINDINGS.txt")):
        m = re.match(r"fixed: property=(C\d\d) ([0-9a-f]{7,40}) (.*)", line)
        if m:
            out.append((m.group(1), m.group(2), m.group(3).strip()))
    return out


def run_check(pid, dst):
    env = dict(os.environ, VERIF_REPO=dst, VERIF_NO_EVIDENCE="1", VERIF_TIER="quick")
    r = subprocess.run([os.path.join(V, "bin", "check"), pid, "--tier", "quick"], env=env, capture_output=True, text=True)
    keys = re.findall(r"^    key=(.*)$", r.stdout, re.M)
    lost = re.findall(r"^ANCHOR-LOST: .*$", r.stdout, re.M)
    err = "" if r.returncode in (0, 1) else (r.stderr[-400:] or r.stdout[-400:])
    return r.returncode, keys, lost, err


def main():
    only = set(sys.argv[1:])
    os.makedirs(os.path.join(V, "regress"), exist_ok=True)
    rp = os.path.join(V, "regress", "results.json")
    results = json.load(open(rp)) if os.path.exists(rp) else {}
    for pid, commit, what in fixed_lines():
        if only and commit not in only:
            continue
        patch = sh("git -C /repo show --format= %s" % commit).stdout
        pf = os.path.join(facts.WORK, "regress-%s.diff" % commit)
        os.makedirs(facts.WORK, exist_ok=True)
        open(pf, "w").write(patch)
        dst = scratch_copy("regress-" + commit)
        res = {"property": pid, "what": what[:160]}
        try:
            r = subprocess.run(["git", "apply", "-R", pf], cwd=dst, capture_output=True, text=True)
            if r.returncode != 0:
                r = subprocess.run(["patch", "-R", "-p1", "-s", "-f", "-i", pf], cwd=dst, capture_output=True, text=True)
            if r.returncode != 0:
                res["result"] = "reverse patch does not apply (later repairs rewrote the same lines)"
            else:
                rc, keys, lost, err = run_check(pid, dst)
                if rc == 1 and (keys or lost):
                    res["result"] = "reported"
                    res["by"] = pid
                    res["keys"] = keys[:4] or lost[:2]
                elif rc not in (0, 1):
                    res["result"] = "the tree with the repair taken out does not build or the check failed: " + err.replace("\n", " ")[-200:]
                else:
                    res["result"] = "silent"
                    for other in ALL:
                        if other == pid:
                            continue
                        rc2, keys2, lost2, _ = run_check(other, dst)
                        if rc2 == 1 and (keys2 or lost2):
                            res["result"] = "reported"
                            res["by"] = other
                            res["keys"] = keys2[:4] or lost2[:2]
                            break
        finally:
            shutil.rmtree(dst, ignore_errors=True)
            os.remove(pf)
        prev = results.get(commit, {})
        if "does not apply" in res["result"] and prev.get("result") == "reported":
            # reported when the repair was made (or in an earlier run); later repairs rewrote the same lines since
            res = dict(prev, note="reported when the repair was made; its reverse patch no longer applies to the current tree (later repairs rewrote the same lines)")
        results[commit] = res
        print(commit, pid, res["result"], res.get("by", ""), (res.get("keys") or [""])[0][:110])
        sys.stdout.flush()
        json.dump(results, open(rp, "w"), indent=1, sort_keys=True)
    order = [c for _, c, _ in fixed_lines()]
    with open(os.path.join(V, "regress", "RESULTS.md"), "w") as fh:
        fh.write("# Repairs taken out again vs. checks (written by tools/run_regress.py)\n\n"
                 "Each `fix:` commit of /repo recorded in KNOWN_FINDINGS.txt is reverted on a scratch copy of the current tree; the check has to report the defect again.\n"
                 "Rows marked (*) were reported when the repair was made; their reverse patch no longer applies to the current tree because later repairs rewrote the same lines.\n\n"
                 "| commit | property | result | reported by | first key |\n|---|---|---|---|---|\n")
        for c in order:
            if c in results:
                r = results[c]
                fh.write("| %s | %s | %s | %s | %s |\n" % (c, r["property"], r["result"] + (" (*)" if r.get("note") else ""), r.get("by", ""), ((r.get("keys") or [""])[0]).replace("|", "\\|")[:150]))
        n = sum(1 for c in order if results.get(c, {}).get("result") == "reported")
        fh.write("\n%d of %d recorded repairs are reported again when taken out (%d of them re-run on the current tree with the current rules, %d recorded when the repair was made); "
                 "%d reverse patches never applied after later repairs; %d silent.\n" % (
                     n, len(order), sum(1 for c in order if results.get(c, {}).get("result") == "reported" and not results[c].get("note")),
                     sum(1 for c in order if results.get(c, {}).get("note")),
                     sum(1 for c in order if "does not apply" in results.get(c, {}).get("result", "")), sum(1 for c in order if results.get(c, {}).get("result") == "silent")))
    return 0


sys.exit(main())
