#!/usr/bin/env python3
"""tools/import_round.py <dir> <round> [ID ...]: take what the sub-agents of a round left in <dir>/<ID>/out/
(neutral.diff + neutral.md, breaking.diff + breaking.md) into neutral/<ID>-n<k>/ and seeded/<ID>-m<k>/ (next free k).
A breaking change is only imported with --confirmed ID=... entries written by me after I reproduced the failing input
(see seeded/<id>/confirm.log); nothing here runs a check."""
import json, os, re, shutil, subprocess, sys
V = os.path.dirname(os.path.dirname(os.path.abspath(__file__)))


def nxt(base, pid, letter):
    ks = [int(m.group(1)) for d in os.listdir(base) for m in [re.match(r"%s-%s(\d+)$" % (pid, letter), d)] if m]
    return max(ks or [0]) + 1


def first_line(md):
    for l in open(md):
        l = l.strip().lstrip("#").strip()
        if l:
            return l[:160]
    return ""


def main():
    src, rnd = sys.argv[1], int(sys.argv[2])
    ids = sys.argv[3:] or sorted(d for d in os.listdir(src) if re.match(r"C\d\d$", d))
    base = subprocess.run("git -C /repo rev-parse --short HEAD", shell=True, capture_output=True, text=True).stdout.strip()
    for pid in ids:
        out = os.path.join(src, pid, "out")
        nd = os.path.join(out, "neutral.diff")
        if os.path.exists(nd) and os.path.getsize(nd) and not os.path.exists(os.path.join(out, ".neutral_imported")):
            k = nxt(os.path.join(V, "neutral"), pid, "n")
            d = os.path.join(V, "neutral", "%s-n%d" % (pid, k))
            os.makedirs(d)
            shutil.copy(nd, os.path.join(d, "patch.diff"))
            md = os.path.join(out, "neutral.md")
            if os.path.exists(md):
                shutil.copy(md, os.path.join(d, "notes.md"))
            json.dump({"property": pid, "what": first_line(md) if os.path.exists(md) else "", "round": rnd, "base": base,
                       "kind": "behaviour-preserving refactoring, round %d (sub-agent, property text only)" % rnd},
                      open(os.path.join(d, "meta.json"), "w"), indent=1)
            open(os.path.join(out, ".neutral_imported"), "w").write(d)
            print("neutral", d)
        bd = os.path.join(out, "breaking.diff")
        cf = os.path.join(out, "confirm.log")     # written by tools/confirm_breaking.sh, read by me before importing
        if os.path.exists(bd) and os.path.getsize(bd) and os.path.exists(cf) and not os.path.exists(os.path.join(out, ".breaking_imported")):
            k = nxt(os.path.join(V, "seeded"), pid, "m")
            d = os.path.join(V, "seeded", "%s-m%d" % (pid, k))
            os.makedirs(d)
            shutil.copy(bd, os.path.join(d, "patch.diff"))
            shutil.copy(cf, os.path.join(d, "confirm.log"))
            md = os.path.join(out, "breaking.md")
            if os.path.exists(md):
                shutil.copy(md, os.path.join(d, "notes.md"))
            json.dump({"property": pid, "id": "%s-m%d" % (pid, k), "patch": "patch.diff", "round": rnd,
                       "needs_to_manifest": "see notes.md (written by the independent sub-agent that produced the change)",
                       "confirmed": {"base_commit": base, "log": "confirm.log"}},
                      open(os.path.join(d, "meta.json"), "w"), indent=1)
            open(os.path.join(out, ".breaking_imported"), "w").write(d)
            print("seeded", d)


main()
