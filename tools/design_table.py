#!/usr/bin/env python3
"""tools/design_table.py: rewrite the per-check table of DESIGN.md section 6.1 from evidence/<id>.json (per_rule counts of the last
quick run on the clean tree).  Run after all checks have been re-run on the committed tree."""
import json, os, re, sys
V = os.path.dirname(os.path.dirname(os.path.abspath(__file__)))
rows = []
for i in range(1, 21):
    pid = "C%02d" % i
    p = os.path.join(V, "evidence", pid + ".json")
    if not os.path.exists(p):
        continue
    c = json.load(open(p))["coverage"]
    per = c.get("per_rule", {})
    n = sum(v["ok"] + v["finding"] + v["anchor-lost"] for v in per.values())
    rows.append("| %s | %d | %s |" % (pid, n, ", ".join("%s %d" % (k, v["ok"] + v["finding"]) for k, v in sorted(per.items()))))
d = open(os.path.join(V, "DESIGN.md")).read()
m = re.search(r"(\| id \| instances \| rules \(instances per rule\) \|\n\|---\|---\|---\|\n)(?:\| C\d\d \|.*\n)+", d)
if not m:
    sys.exit("table not found")
d = d[:m.start()] + m.group(1) + "\n".join(rows) + "\n" + d[m.end():]
open(os.path.join(V, "DESIGN.md"), "w").write(d)
print("\n".join(rows))
