#!/bin/bash
# tools/try_patch.sh <patch.diff> <ID>... : apply a seeded change to /repo, run the named checks, undo it.
P=$1; shift
cd /repo || exit 2
git diff --quiet || { echo "/repo has uncommitted changes"; exit 2; }
git apply "$P" 2>/dev/null || git apply --3way "$P" || { echo "patch does not apply"; git reset -q --hard HEAD; exit 2; }
git reset -q
for id in "$@"; do
  out=$(cd /verif && VERIF_NO_EVIDENCE=1 bin/check $id 2>&1); rc=$?
  echo "--- $id exit=$rc"; echo "$out" | grep -E "^(VIOLATION:|ANCHOR-LOST:|KNOWN)|^    key=|^    [a-zA-Z]" | head -${LINES_MAX:-12}
done
git -C /repo checkout -- . ; git -C /repo clean -fdq -e target
