#!/usr/bin/env python3
"""tools/neutral_scratch.py <name>: a scratch copy of /repo with neutral/<name>/patch.diff applied (kept, for working on a rule);
prints its path.  Use as VERIF_REPO=<path> VERIF_NO_EVIDENCE=1 bin/check <ID>.  Remove it afterwards."""
import os, subprocess, sys
V = os.path.dirname(os.path.dirname(os.path.abspath(__file__)))
sys.path.insert(0, os.path.join(V, "rules"))
from thorough import scratch_copy  # noqa: E402
name = sys.argv[1]
patch = os.path.join(V, "neutral", name, "patch.diff")
if os.path.exists(os.path.join(V, "neutral", name, "patch_current.diff")):
    patch = os.path.join(V, "neutral", name, "patch_current.diff")      # rebased onto the current tree
if not os.path.exists(patch):
    # a seeded change: seeded/<name>/patch_current.diff (rebased) or patch.diff
    patch = os.path.join(V, "seeded", name, "patch_current.diff")
    if not os.path.exists(patch):
        patch = os.path.join(V, "seeded", name, "patch.diff")
dst = scratch_copy("work-" + name)
r = subprocess.run(["git", "apply", patch], cwd=dst, capture_output=True, text=True)
if r.returncode != 0:
    sys.exit("patch does not apply: " + r.stderr)
print(dst)
