#!/usr/bin/env python3
"""tools/run_seeded.py [ID-mK ...]: apply every confirmed seeded change (seeded/<id>/patch_current.diff if present, else
patch.diff) to /repo, run the checks of its property (plus any listed in meta["also_check"]), undo it, and record which rules
fired in seeded/<id>/meta.json ("detected_by") and seeded/RESULTS.md."""
import json, os, re, subprocess, sys
V = os.path.dirname(os.path.dirname(os.path.abspath(__file__)))
S = os.path.join(V, "seeded")

def sh(cmd, **kw):
    return subprocess.run(cmd, shell=True, capture_output=True, text=True, **kw)

def main():
    if sys.argv[1:] == ["--table"]:
        write_results(); return 0
    ids = sys.argv[1:] or sorted(d for d in os.listdir(S) if os.path.isdir(os.path.join(S, d)))
    if sh("git -C /repo diff --quiet").returncode != 0:
        print("/repo has uncommitted changes"); return 2
    only_missing = False
    rows = []
    for sid in ids:
        d = os.path.join(S, sid)
        meta = json.load(open(os.path.join(d, "meta.json")))
        patch = os.path.join(d, "patch_current.diff") if os.path.exists(os.path.join(d, "patch_current.diff")) else os.path.join(d, "patch.diff")
        # a scratch git worktree of /repo's HEAD outside /repo and /verif (3-way apply needs the objects); /repo stays untouched
        work = os.environ.get("VERIF_WORK", "/var/tmp/rinkverif")
        wt = os.path.join(work, "scratch", "seed-" + sid)
        sh("git -C /repo worktree remove --force %s; rm -rf %s; mkdir -p %s" % (wt, wt, os.path.dirname(wt)))
        sh("git -C /repo worktree add --detach %s HEAD" % wt)
        r = sh("git -C %s apply %s 2>/dev/null || git -C %s apply --3way %s" % (wt, patch, wt, patch))
        if r.returncode != 0:
            sh("git -C /repo worktree remove --force %s" % wt)
            meta["detected_by"] = None
            meta["applies_to_current_tree"] = False
            rows.append((sid, meta["property"], "patch does not apply to the repaired tree", ""))
            json.dump(meta, open(os.path.join(d, "meta.json"), "w"), indent=1)
            continue
        sh("git -C %s reset -q" % wt)
        props = [meta["property"]] + meta.get("also_check", [])
        det = {}
        for p in props:
            out = sh("cd %s && VERIF_REPO=%s VERIF_NO_EVIDENCE=1 bin/check %s" % (V, wt, p))
            keys = re.findall(r"^    key=(.*)$", out.stdout, re.M)
            kinds = re.findall(r"^(VIOLATION|ANCHOR-LOST): property=(\S+) rule=(\S+)", out.stdout, re.M)
            if out.returncode != 0:
                det[p] = {"exit": out.returncode, "rules": sorted(set(k[2] for k in kinds)), "keys": keys[:6], "anchor_lost_only": bool(kinds) and all(k[0] == "ANCHOR-LOST" for k in kinds)}
        sh("git -C /repo worktree remove --force %s" % wt)
        meta["applies_to_current_tree"] = True
        meta["patch_used"] = os.path.basename(patch)
        meta["detected_by"] = det or None
        json.dump(meta, open(os.path.join(d, "meta.json"), "w"), indent=1)
        rows.append((sid, meta["property"], "DETECTED" if det else ("silent (change is behaviour-neutral on the repaired tree)" if meta.get("neutral_on_repaired_tree") else "not detected"), "; ".join("%s: %s" % (p, ", ".join(v["rules"])) for p, v in det.items())))
        print(rows[-1]); sys.stdout.flush()
    write_results()
    return 0


def write_results():
    """RESULTS.md is regenerated from every seeded/<id>/meta.json."""
    with open(os.path.join(S, "RESULTS.md"), "w") as fh:
        fh.write("# Seeded changes vs. checks (written by tools/run_seeded.py from the meta.json files)\n\n"
                 "| change | property | result on the current tree | rules that fired (per check) |\n|---|---|---|---|\n")
        for sid in sorted(d for d in os.listdir(S) if os.path.isdir(os.path.join(S, d))):
            m = json.load(open(os.path.join(S, sid, "meta.json")))
            det = m.get("detected_by") or {}
            if det:
                res = "DETECTED" + (" (anchor-lost: the rule's anchor no longer has the analysable shape)" if all(v.get("anchor_lost_only") for v in det.values()) else "")
            elif m.get("neutral_on_repaired_tree"):
                res = "silent: behaviour-neutral on the repaired tree"
            elif m.get("applies_to_current_tree") is False:
                res = "patch does not apply"
            else:
                res = "not detected"
            fh.write("| %s | %s | %s | %s |\n" % (sid, m["property"], res, "; ".join("%s: %s" % (p, ", ".join(v["rules"])) for p, v in det.items())))


sys.exit(main())
