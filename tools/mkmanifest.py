#!/usr/bin/env python3
"""Regenerates MANIFEST.json from the table below (claimed checks) + properties.jsonl."""
import json, os
V = os.path.dirname(os.path.dirname(os.path.abspath(__file__)))
ids = [json.loads(l)["id"] for l in open(os.path.join(V, "properties.jsonl"))]

CLAIMS = {
 "C19": dict(
  technique="static path-effect summation over MIR + who-may-write (atomic RMW only)",
  text="Every entry->return path of the four GlobalAlloc methods of rink_sandbox::Alloc is enumerated symbolically from the MIR of /repo's current tree; the net effect on `used` per path is compared with what the path does to the parent allocator, the success path must lie behind this call's own `post-add <= limit` edge and must publish the post-add value with fetch_max; all accesses to the counters in all five crates must be atomic RMW/load. This is an exhaustive decision over all paths of loop-free code and is schedule-independent by the RMW-only argument; it is the right level because the property is entirely a matter of code shape in four small functions.",
  note="Trusted: rustc's MIR and callee resolution, the driver, the std contract Layout::size(from_size_align_unchecked(s,a)) == s, total order of RMWs on one atomic. Not decided: memory-ordering subtleties, OS behaviour when the limit is exceeded.",
  design_ref="DESIGN.md section 4, C19"),
}
CLAIMS["C15"] = dict(
  technique="effect/ownership analysis: signatures + deep interior-mutability walk + who-may-write over MIR + single-edge cut-set (necessary guards) of every previous_result store",
  text="Decides from the MIR/HIR/type facts of /repo's current tree that (a) everything reachable from eval_query takes Context/Registry by shared reference and no interior mutability, user unsafe, static mut or non-Freeze static exists in rink_core (so a query cannot write database, clock or settings), (b) every write through a field of Context or Registry in all five crates is made by an allowed writer, none reachable from a per-query entry, (c) each of the three stores to previous_result is reachable only through the edges success / save_previous_result==true / QueryReply::Number / raw_value Some and stores that reply's raw value, (d) QueryReply::Number is built only in the plain-expression arm, (e) Context::lookup serves exactly ans/ANS/_ from previous_result, (f) load-time temporaries are cleared on every path. Together these are the whole structural content of the property; what is left (determinism of evaluation) is C08's clause.",
  note="Trusted: rustc's borrow checker (shared reference + no interior mutability => no write), the driver, the allowed-writer table in rules/c15.py. A refactor that moves the ans update into a new function needs a table line.",
  design_ref="DESIGN.md section 4, C15")
CLAIMS["C18"] = dict(
  technique="typestate / arm-table analysis over HIR of the parent loop, child-side fact extraction, sibling agreement of framing functions",
  text="On the HIR of rink_sandbox as it stands: the request loop's statement order (recv, write, await reply, exactly one send, optional kill+break) with no skipping break/continue and `?`-consumed results gives one reply per request; the arm table of `match pending.await` is checked against facts extracted from the child (it exits after any Err reply; one read and one write per iteration): every Err-answering arm must set break_out, break_out must reach process.kill() and a break to the loop that spawns a new child whose fresh stdin/stdout are the handles used afterwards; execute pairs one send with one recv over bounded(1) channels; the four framing functions agree on prefix type, endianness, byte count and order. This decides the protocol's shape for all request/fault sequences at once; timing, signals and pipe semantics are outside static reach and not claimed.",
  note="Trusted: the extractor's reading of the HIR shape (a restructured run_task is reported as anchor-lost, not passed); OS process and pipe behaviour; async-std's timeout/race semantics.",
  design_ref="DESIGN.md section 4, C18")
CLAIMS["C20"] = dict(
  technique="must-pass-through / single-edge cut-set on MIR + def-use of path arguments + inter-procedural who-may-write (cache-path taint)",
  text="From the MIR of the cli crate in /repo's current tree: NamedTempFile::persist in download_to_file is reachable only through the `?`-consumed success edges of Easy::perform, Easy::response_code, the `status == 200` edge and File::sync_all on the same temp file; the temp file is created with tempfile_in(parent(path)) for the very path that is persisted and the download body goes only to a clone of its handle; every call in the cli crate that creates, truncates, renames or removes files is enumerated and none outside that discipline receives a path derived from dirs::cache_dir() (taint propagated through call arguments); cached() falls back to the stale file, load() survives a currency failure, force_refresh_currency propagates errors. This is the write discipline the property rests on, decided for all paths; atomicity of rename, curl's error detection and kill -9 behaviour are OS/library semantics and are assumptions.",
  note="Trusted: rename(2) atomicity on one filesystem, curl reporting truncated/timeout transfers as errors of perform(), tempfile's drop clean-up, the driver. File-mutating call sites that do not involve the cache path are listed in the evidence, not judged.",
  design_ref="DESIGN.md section 4, C20")
CLAIMS["C07"] = dict(
  technique="fallback-order (single-edge cut-set) on MIR CFG of the three sibling lookup families + iteration-source/def-use facts + container type facts + who-may-call",
  text="For Registry::lookup*, Registry::canonicalize* and the loader's Resolver::lookup*, decided on the MIR of /repo's current tree: the prefix loop is reachable only through the failing edge of the exact lookup on the whole name, the plural retry only through the failing edge of the full prefixed lookup and only with a trailing 's' stripped, and an earlier stage's hit is returned unchanged; the prefix loops iterate the prefix table itself forwards with first-match-wins and the siblings agree on that policy (so canonicalising and evaluation split a name identically); the prefixed value multiplies the exact unit by the value paired with the matched prefix; Context::lookup consults ans and the (provably cleared) load-time temporaries before the registry; the registry's containers are ordered and no hash iteration/clock/env is reachable from resolution. This is the order and determinism content of the property for all names; that canonicalising preserves the value for each of the ~500k names is data-dependent and not claimed.",
  note="Trusted: the extractor's reading of today's loop idioms (a rewrite with iterator adaptors is reported, since first-match-wins can no longer be established); the driver; rustc's callee resolution.",
  design_ref="DESIGN.md section 4, C07")
CLAIMS["C12"] = dict(
  technique="type facts + def-use on MIR (work-list provenance) + dominance (writes after sort) + HIR match-table coverage + call-site uniqueness in the CLI + data lint",
  text="Decides the order-forgetting structure that makes load results independent of definition order and file split: keyed ordered containers, visit() driven only by the ordered `unmarked` set, post-order emission behind unmarked/temp-mark tests, all registry writes dominated by the completed sort, dependency walk covering every expression position of every Def kind and every recursive Expr variant, one Context::load over the flattened file list in the CLI, no clock/env/hash iteration reachable from the loader, unique names per namespace in the bundled data. Equality of the resulting databases across permutations additionally needs every evaluation-time lookup to be a dependency the resolver saw; that semantic fact is approximated by the coverage rule, not proved.",
  note="Trusted: driver, rustc resolution, the independent data-file reader (validated to produce the same 2748 entries as the Rust parser).",
  design_ref="DESIGN.md section 4, C12")
CLAIMS["C08"] = dict(
  technique="who-may-call over the call graph (determinism) + CFG order rules on the resolver + independent data-file reader with reference/alias/quantity lints",
  text="(a) no clock, environment, file system, thread, randomness or hash-iteration call is reachable from the loader roots and the loader's types contain no hash containers, so loading is a function of the text; (b) dependencies are emitted first (post-order, ordered work list, registry writes after the sort) and every evaluation error reaches the error list, Context::load returns Err iff the list is non-empty; (c) over definitions.units, currency.units and the currency snapshot: names unique per namespace, all 3700+ identifier references resolve exact->prefix->plural, 753 alias chains end at real definitions, quantities map injectively to dimensionalities over declared base units, categories are declared, hard-wired decomposition units exist. Not claimed: stored value == value of its definition text for each of the ~2900 entries (needs evaluation).",
  note="Trusted: driver, the data-file reader/folder in /verif/unitsfile, the list of non-deterministic std/extern APIs in rules/loader_rules.py.",
  design_ref="DESIGN.md section 4, C08")
CLAIMS["C02"] = dict(
  technique="gate (cut-set) analysis on MIR CFG with operand def-use, NonZero abstract classification of exponent writers, HIR arm-table check of btree_merge, callee/shape facts of the exponent algebra",
  text="Decides the structural clauses of dimensional soundness on /repo's current tree: every operation that requires equal or empty dimensionality (Add/Sub/rem, hypot, atan2, sin/cos/tan, asin/acos/atan, log base, the temperature suffix, pow/shl/shr exponent, and/or/xor, unit-list members and value) becomes unreachable in the CFG once the accepting edges of the dimensionality tests on exactly the operands it combines are removed; the exponent algebra has the documented shape (merge adds and drops zero, Div = Mul o recip, powi multiplies, root divides behind the divisibility gate, inverse trig returns radian); every value stored into a Dimensionality map is NonZero by induction over all writers; btree_merge's arms insert what they advance. This covers all inputs for these clauses; that each database unit has the right dimensionality is data and is not claimed.",
  note="Trusted: driver and callee resolution; the two justified sites in rules/c02.py JUSTIFIED (each backed by a machine-checked clause). A helper-function refactor of a gate is reported as an unrecognised gate.",
  design_ref="DESIGN.md section 4, C02")
CLAIMS["C03"] = dict(
  technique="gate (cut-set) analysis on the MIR CFG of eval_query with value-identity def-use, K4 guarded float-reachability for the quotient, HIR/MIR shape facts of conformance_err",
  text="On /repo's current tree: both Context::show sites of eval_query and the Number divisions feeding them are unreachable once the accepting edges of `top.unit == bottom.unit` on exactly those two operands are deleted; the failing edge of the same test builds QueryError::Conformance from conformance_err of the same operands; the value shown is Div for &Number of those operands, whose zero test is the exact Numeric comparison and whose callee closure contains no unguarded float-introducing site; conformance_err ties the reciprocal hint to top*bottom being dimensionless and does its unit arithmetic on operands whose value was reset to exactly 1 (so a zero side cannot turn the error into a crash); substance property replies for a target are built only behind a dimensionality comparison. Decides refusal and exactness structure for all inputs; `x*t = v` over the ~4000 database units is data and not claimed.",
  note="Trusted: driver, callee resolution, num-rational's exact arithmetic (exactness below the BigRat wrapper is C01's clause).",
  design_ref="DESIGN.md section 4, C03")
CLAIMS["C09"] = dict(
  technique="gate (cut-set) + def-use threading rules on the MIR of to_list, callee-shape facts of Numeric::div_rem, K4 guarded float-reachability, data check of the breakdown units",
  text="Decides on /repo's current tree that unit-list decomposition has the structure the law needs: both conformance gates cut every division; each non-last unit is consumed by div_rem of the running value, the pushed part is that call's quotient and the running value becomes that call's remainder; the last unit takes the exact quotient; every part pushed is one of those two quotients; divisions are behind an exact zero test of the unit's value; div_rem's rational arm is a truncating BigInt quotient with remainder left - right*quotient and no flooring helper; no float can be introduced on rational operands; the automatic duration reply is built from to_list's items behind `unit == s` over year..second (defined, time-valued, descending in the data). The mixed-radix identity itself is arithmetic over values and is not claimed.",
  note="Trusted: driver, num-bigint's truncating division, the data-file reader.",
  design_ref="DESIGN.md section 4, C09")
CLAIMS["C10"] = dict(
  technique="table extraction from HIR + exact rational folding of the data files against a reviewed textbook table + mirror-structure def-use on MIR + gates + K4",
  text="The six (zero constant, scale unit) pairs are extracted from Degree::name_base_scale and their exact values folded from definitions.units must equal the textbook affine constants (and be temperatures with non-zero scale); the suffix arm is x*lookup(scale)+lookup(zero) and the conversion arm (v-lookup(zero))/lookup(scale), each taking both names from one name_base_scale call and using Number's exact operators (no float-introducing site), so for every rational x the two maps are inverses and cross-scale conversion equals the textbook formula; the suffix is gated on dimensionless operands, the conversion on the conformance test, compound targets refuse scales; every variant has lexer spellings, no spelling is shared, Display prints a spelling of its own variant. This decides the property for all x and all 36 pairs given exact Number arithmetic (C01).",
  note="Trusted: tables/temperature_textbook.json (reviewed by hand), the data-file reader/folder, exactness of num-rational.",
  design_ref="DESIGN.md section 4, C10")
CLAIMS["C17"] = dict(
  technique="HIR statement-shape and arm-table rules for the UnitsFor/Factorize arms and commands::factorize, sibling agreement of the quantity-name shortcut, ordering-consistency rule for dedup",
  text="Decides on /repo's current tree the filter, base-case and dedup structure: the quantity-name shortcut is the same loop over registry.quantities in both commands and returns the dimensionality paired with exactly that name; `units for` considers every registered unit, lists one only behind `val.unit == unit.unit`, skips only pure aliases (units without a definition are kept), appends the base unit only for exponent one, sorts before grouping and flushes on category change and after the loop; factorize returns the empty product only for a dimensionless value, ties pushed name, divisor and recursive quotient to one (unit, name) pair, and dedup() runs over vectors sorted by a total order consistent with equality (Factors' PartialOrd is the derived/full order), so no duplicate survives. Soundness/completeness over the ~4000 database units is data and not claimed.",
  note="Trusted: the extractor's reading of today's loop shapes (an iterator-adaptor rewrite is reported as anchor-lost, not passed); BinaryHeap ordering through PartialOrd.",
  design_ref="DESIGN.md section 4, C17")
CLAIMS["C16"] = dict(
  technique="sibling cross-check of role-normalised arithmetic trees (def-use over MIR access paths), gate analysis of Substance::get, HIR arm tables of the formula parser and Expr::Of, who-may-write invariant of the symbol table",
  text="Decides on /repo's current tree: the six near-copies of the property arithmetic in Substance::get, to_reply and get_in_unit compute exactly the reference operation trees over (amount, input, output) - output*amount/input for dimensionless amounts; input/amount, output/amount, output/(input/amount), input/(output/amount) otherwise - and pair them with output_name/input_name consistently; Substance::get returns a number for a dimensioned amount only behind dimless() of the corresponding ratio and otherwise Conformance(amount, the property's own side); Mul/Div by a number change only `amount`; Expr::Of maps both error kinds; substance_from_formula turns every token other than a known symbol (+count) into None, adds count x molar mass of the matched symbol for every occurrence (no keyed overwrite), and returns Some only behind a flag set in the symbol arm; substance_symbols only ever names an inserted substance. Linearity/inversion as numeric identities then follow from exact Number arithmetic (C01); that the database's ~200 substances carry the right numbers is data and not claimed.",
  note="Trusted: the reference tree table in rules/c16.py (an algebraically equivalent rewrite of all copies needs a table update); driver; num-rational exactness.",
  design_ref="DESIGN.md section 4, C16")
CLAIMS["C14"] = dict(
  technique="gate/def-use analysis on MIR (range gates, checked arithmetic, scale-constant extraction), who-may-call for unchecked chrono operators, HIR keyword-table extraction compared with datepatterns.txt, sibling agreement of the two offset spellings",
  text="Decides on /repo's current tree: the Offset conversion's FixedOffset is east_opt's Some value with None turned into an error (no unwrap, no truncating cast); to_duration builds chrono Durations only behind the unit-is-seconds and magnitude tests and from to_int()'s Some value; instant +- duration uses checked_add_signed/checked_sub_signed fed by to_duration(..)? with None mapped to an error and no unchecked DateTime+-Duration operator exists in rink_core; re-zoning only delegates to DateTime::with_timezone and the reply is built from the re-zoned value; every keyword of datepatterns.txt has a parse_date arm and the ten numeric keywords have the documented digit counts and ranges; the scale constants of to_duration (10^3, then 10^6 for the sub-millisecond remainder) and from_duration (10^3, 10^9) are consistent; both numeric offset spellings compute sign*(h*3600+m*60). The round-trip laws themselves and the Gregorian calendar are chrono's behaviour and values, not decided.",
  note="Trusted: chrono's documented contracts (with_timezone preserves the instant, checked_* return None on overflow), the keyword range table in rules/c14.py.",
  design_ref="DESIGN.md section 4, C14")
CLAIMS["C06"] = dict(
  technique="table agreement (HIR literals of prettify vs exact folding of definitions.units), reference-tree check of prettify's value arithmetic (def-use over MIR access paths), provenance def-use of NumberParts fields, K4 for the printed factor, sibling check of merge closures",
  text="Decides on /repo's current tree the structural conditions under which readability choices cannot change the quantity: prettify's hard-wired special cases agree with the database (kilogram = 1000 gram, byte = 8 bit, tonne = mega gram, sixteen prefixes = 10^(+-3k) tiling by 1000); every arithmetic tree applied to the value in prettify is one of the reference scalings, each raised to the unit's own exponent with name and divisor from the same prefix entry, and every displayed exponent is the unit's own; dimensions/quantity come from the result's own unit; factor/divfactor are numerator/denominator of one constant and the unit is the target's own name map; the printed factor of a conversion target is computed without any float-introducing site; fast_decompose stores the exponent it divided by under the paired name; all unit-map merges add exponents and drop zeros. Equality of numeral x factor x unit with the quantity for every magnitude is a statement about values and is not claimed.",
  note="Trusted: the reference-tree table in rules/c06.py (a new, correct special case needs a table line), the data-file folder, driver.",
  design_ref="DESIGN.md section 4, C06")
CLAIMS["C11"] = dict(
  technique="table extraction from HIR (printer precedence tables and arm shapes; parser ladder; lexer symbol map) + exhaustive abstract round-trip over all depth<=2 trees and depth-3 spines with generic printer/parser models parameterised only by the extracted tables",
  text="The printer's tables (Precedence order, from/next/right/factor, per-variant parenthesisation thresholds and child precedences of both Display for Expr and ExprReply::from, BinOpType::symbol) and the parser's ladder (levels, token arms, operand functions, loops vs self-calls, juxtaposition break set, product accumulation, singleton collapse, of/unary/function operand levels) are extracted from /repo's current HIR with skeleton validation; the lexer map ties each printed symbol to the token the parser handles with the same operator. A generic printer model and a generic ladder-parser model are run in token space over all 4789 trees of depth <= 2 over 18 node kinds and all 17298 depth-3 spines; every (parent, slot, child) pair must re-parse to the identical tree, and the two printers must agree. This is an exhaustive decision at the abstract level (exhaustive for the enumerated shapes; deeper interactions beyond depth-3 spines are not enumerated). Leaf spelling (identifiers needing quotes, numerals, dates) is excluded as in the statement.",
  note="Trusted: that the models are faithful for bodies whose skeleton the extractor accepts (validated once against the real parser/printer on 22087 trees in the design phase and on 22 spot cases after the repair); a restructured printer or parser is reported as anchor-lost.",
  design_ref="DESIGN.md section 4, C11")
NA = {
 "C05": "digit strings, recurring-block offsets and the 1-ulp truncation bound are number-theoretic facts about runtime values of p/q and the base; no structural clause is a genuine necessary condition (DESIGN.md section 4, C05)",
}

def main():
    checks = []
    for i in ids:
        if i in CLAIMS:
            c = CLAIMS[i]
            checks.append({
                "property_id": i,
                "quick_cmd": "bin/check %s --tier quick" % i,
                "thorough_cmd": "bin/check %s --tier thorough" % i,
                "evidence_file": "/verif/evidence/%s.json" % i,
                "replay_cmd_template": "bin/check %s --replay {path}" % i,
                "engine": "rinkfacts+rules",
                "level_claimed": {"category": "other", "text": c["text"], "design_ref": c["design_ref"]},
                "level_note": c["note"],
                "technique": c["technique"],
            })
    na = [{"property_id": i, "reason": NA.get(i, "check not built yet (implementation in progress; DESIGN.md section 4 describes the planned static rule)")} for i in ids if i not in CLAIMS]
    m = {
        "version": 1,
        "setup_cmd": "cd /verif/driver && CARGO_NET_OFFLINE=true cargo build --offline",
        "hooks": {"guard": "rink_verif", "enable": "no hooks: checks read /repo's sources through a rustc_private driver (RUSTC_WORKSPACE_WRAPPER under cargo +nightly check); nothing in /repo is instrumented",
                  "baseline_off_cmd": "cd /repo && RUST_BACKTRACE=0 cargo test --workspace --no-fail-fast --offline",
                  "source_commits": [], "add_only": True},
        "engines": [{"name": "rinkfacts+rules", "path": "/verif/driver, /verif/rules, /verif/bin/check",
                     "serves_properties": sorted(CLAIMS), "kind_free_text": "static analysis: rustc_private fact extractor (MIR CFG with resolved callees, HIR trees, type facts) + Python rule engines (path effects, gates/cut-sets, who-may-write/call, table extraction, panic-edge discharge) + independent reader for the bundled data files"}],
        "checks": checks,
        "not_applicable": na,
        "notes": "Static analysis only: nothing in /repo is executed by any check. Findings policy and known-findings file: DESIGN.md section 5, KNOWN_FINDINGS.txt.",
    }
    json.dump(m, open(os.path.join(V, "MANIFEST.json"), "w"), indent=1)
main()
