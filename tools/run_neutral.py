#!/usr/bin/env python3
"""tools/run_neutral.py [name ...]: "never raise an alarm on code where the property holds".

neutral/<name>/patch.diff is a behaviour-preserving change to /repo (a refactoring a maintainer could make; produced by a
sub-agent that saw only the property text, then read by me).  Each is applied to a scratch copy of /repo's current tree outside
/repo and /verif, and EVERY check is run against the copy (VERIF_REPO, no evidence written).  Every check has to stay silent
(exit 0).  A check that exits 1 here raised a false alarm; the rule is corrected, never the patch.  Results go to
neutral/RESULTS.md and neutral/results.json.  Nothing here is a registered check: it tests the checkers, on demand."""
import json, os, re, shutil, subprocess, sys
from concurrent.futures import ThreadPoolExecutor
V = os.path.dirname(os.path.dirname(os.path.abspath(__file__)))
sys.path.insert(0, os.path.join(V, "rules"))
import facts  # noqa: E402
from thorough import scratch_copy  # noqa: E402

ALL = ["C%02d" % i for i in range(1, 21) if i != 5]


def run_check(pid, dst):
    env = dict(os.environ, VERIF_REPO=dst, VERIF_NO_EVIDENCE="1", VERIF_TIER="quick")
    r = subprocess.run([os.path.join(V, "bin", "check"), pid, "--tier", "quick"], env=env, capture_output=True, text=True)
    keys = re.findall(r"^    key=(.*)$", r.stdout, re.M)
    lost = re.findall(r"^ANCHOR-LOST: .*$", r.stdout, re.M)
    err = "" if r.returncode in (0, 1) else (r.stderr[-400:] or r.stdout[-400:])
    return pid, r.returncode, keys, lost, err


def main():
    args = sys.argv[1:]
    checks = ALL
    save = True
    for a in list(args):
        if a.startswith("--checks="):
            checks = a.split("=", 1)[1].split(",")
            save = False          # an ad-hoc try of some checks: print, do not record
            args.remove(a)
    only = set(args)
    ndir = os.path.join(V, "neutral")
    rp = os.path.join(ndir, "results.json")
    results = json.load(open(rp)) if os.path.exists(rp) else {}
    names = sorted(n for n in os.listdir(ndir) if os.path.exists(os.path.join(ndir, n, "patch.diff")))
    for name in names:
        if only and name not in only:
            continue
        dst = scratch_copy("neutral-" + name + ("" if save else "-try"))
        res = {}
        try:
            # patch_current.diff: the same change rebased onto the current tree (a later repair touched the same lines)
            pc = os.path.join(ndir, name, "patch_current.diff")
            r = subprocess.run(["git", "apply", pc if os.path.exists(pc) else os.path.join(ndir, name, "patch.diff")], cwd=dst, capture_output=True, text=True)
            if r.returncode != 0:
                # written against an earlier tree and not rebased: the result recorded when it still applied is kept and marked
                old = results.get(name) or (json.load(open(rp)).get(name) if os.path.exists(rp) else None)
                if old and old.get("result") in ("silent", "alarm"):
                    res = dict(old, stale_base=True)
                else:
                    res["result"] = "patch does not apply"
            else:
                # the first check builds the facts of this tree; the others reuse them
                first = run_check(checks[0], dst)
                with ThreadPoolExecutor(6) as ex:
                    rest = list(ex.map(lambda p: run_check(p, dst), checks[1:]))
                alarms = {}
                broken = {}
                for pid, rc, keys, lost, err in [first] + rest:
                    if rc == 1:
                        alarms[pid] = (keys or lost)[:4]
                    elif rc != 0:
                        broken[pid] = err.replace("\n", " ")[-200:]
                res["result"] = "silent" if not alarms and not broken else ("alarm" if alarms else "check failed")
                res["alarms"] = alarms
                if broken:
                    res["broken"] = broken
        finally:
            shutil.rmtree(dst, ignore_errors=True)
        print(name, res["result"], json.dumps(res.get("alarms") or res.get("broken") or "")[:300 if save else 3000])
        sys.stdout.flush()
        if not save:
            continue
        results = json.load(open(rp)) if os.path.exists(rp) else {}
        results[name] = res
        json.dump(results, open(rp, "w"), indent=1, sort_keys=True)
    if not save:
        return 0
    results = json.load(open(rp)) if os.path.exists(rp) else {}
    with open(os.path.join(ndir, "RESULTS.md"), "w") as fh:
        fh.write("# Behaviour-preserving changes vs. checks (written by tools/run_neutral.py)\n\n"
                 "Each change is applied to a scratch copy of the current tree and all 19 checks run against it; all have to stay silent.\n\n"
                 "| change | what it does | result | checks that raised an alarm |\n|---|---|---|---|\n")
        for name in names:
            if name not in results:
                continue
            meta = {}
            mp = os.path.join(ndir, name, "meta.json")
            if os.path.exists(mp):
                meta = json.load(open(mp))
            r = results[name]
            fh.write("| %s | %s | %s | %s |\n" % (name, meta.get("what", "").replace("|", "\\|"), r["result"] + (" (*)" if r.get("stale_base") else ""),
                                                 "; ".join("%s: %s" % (p, (k or [""])[0].replace("|", "\\|")[:120]) for p, k in sorted((r.get("alarms") or {}).items()))))
        fh.write("\n(*) recorded when the change still applied: it was written against an earlier tree and a later repair of /repo rewrote the same lines.\n")
        fh.write("\n%d changes, %d silent.\n" % (sum(1 for n in names if n in results), sum(1 for n in names if results.get(n, {}).get("result") == "silent")))
    return 0


sys.exit(main())
