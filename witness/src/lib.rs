//! Type-level witnesses for C15 (queries are pure): these doc-tests are compiled, never run for their
//! behaviour.  `cargo +nightly test --doc` (the error code of compile_fail is only honoured on nightly).
//!
//! The compiling twin: a query is evaluated through a shared reference, and `Context` can be shared
//! between threads (no interior mutability that is not thread-safe).
//! ```no_run
//! fn assert_sync<T: Sync + Send>() {}
//! fn evaluate(ctx: &rink_core::Context, q: &rink_core::ast::Query) {
//!     let _ = ctx.eval_query(q);
//!     let _ = ctx.lookup("meter");
//! }
//! assert_sync::<rink_core::Context>();
//! let _ = evaluate;
//! ```
//!
//! The failing twin differs only in the offending line: a field of the context cannot be assigned
//! through the shared reference that evaluation receives.
//! ```compile_fail,E0594
//! fn assert_sync<T: Sync + Send>() {}
//! fn evaluate(ctx: &rink_core::Context, q: &rink_core::ast::Query) {
//!     let _ = ctx.eval_query(q);
//!     ctx.previous_result = None; // cannot assign to `ctx.previous_result`, which is behind a `&` reference
//! }
//! assert_sync::<rink_core::Context>();
//! let _ = evaluate;
//! ```
//!
//! And the registry cannot be borrowed mutably through it either.
//! ```compile_fail,E0596
//! fn evaluate(ctx: &rink_core::Context) {
//!     ctx.registry.units.clear(); // cannot borrow `ctx.registry.units` as mutable
//! }
//! let _ = evaluate;
//! ```
